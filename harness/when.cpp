// C09 (WhenAll / Join) and C10 (WhenAny): profiles "c09" and "c10" (DESIGN §3 C09, C10).
#include <sim/util.hpp>

#include <yaclib/async/contract.hpp>
#include <yaclib/async/join.hpp>
#include <yaclib/async/make.hpp>
#include <yaclib/async/shared_contract.hpp>
#include <yaclib/async/wait.hpp>
#include <yaclib/async/when_all.hpp>
#include <yaclib/async/when_any.hpp>
#include <yaclib/coro/await.hpp>
#include <yaclib/coro/future.hpp>
#include <yaclib/coro/shared_future.hpp>
#include <yaclib/exe/submit.hpp>
#include <yaclib/runtime/fair_thread_pool.hpp>

#include <deque>
#include <string>
#include <tuple>
#include <utility>
#include <vector>
#include <yaclib_std/thread>

namespace {

using sim::OKind;
using sim::Outcome;
using E = sim::SimError;
using T = sim::Tracked;
using yaclib::FailPolicy;

enum Comb : int { kWhenAll, kJoin, kWhenAllTuple, kWhenAny, kCombCount };
const char* kCombNames[] = {"WhenAll", "Join", "WhenAll(heterogeneous -> tuple)", "WhenAny"};
enum Form : int { kVariadic, kIterator, kFormCount };
enum Kind : int { kAllUnique, kAllShared, kMixedOddShared, kMixedEvenShared, kKindCount };
const char* kKindNames[] = {"Future", "SharedFuture", "mixed (odd positions shared)", "mixed (even positions shared)"};
enum Mode : int { kPre, kFiber, kPoolJob, kModeCount };
const char* kModeNames[] = {"already complete", "own fiber", "pool job"};
const char* kPolicyNames[] = {"None", "FirstFail", "LastFail"};
const char* kOutNames[] = {"value", "error", "exception"};

struct In {
  int outcome = 0;  // 0 value 1 error 2 exception
  int mode = 0;
  std::uint32_t delay = 0;
  bool late = false;   // completes only after the consumer opened the gate
  bool shared = false;
  std::uint32_t id = 0;
  std::uint64_t set_invoke = 0, set_return = 0;
  std::uint32_t cell = 0;  // written before the input is fulfilled
  bool by_coroutine = false;  // the input is a coroutine's future: its completion arrives through final_suspend (Next), not Promise::Set
};

class Case final : public sim::CaseBase {
 public:
  void Generate(sim::Gen& g) final {
    profile = sim::Profile();
    const bool any = profile == "c10";
    comb = any ? kWhenAny : static_cast<int>(g.Draw(3));
    form = static_cast<int>(g.Draw(kFormCount));
    kind = static_cast<int>(g.Draw(kKindCount));
    if (any) {
      static const int pol[] = {2, 1, 0};
      policy = pol[g.Draw(3)];
    } else {
      policy = 1 - static_cast<int>(g.Draw(2));  // FirstFail (1) first, then None (0)
    }
    int n;
    if (comb == kWhenAllTuple) {
      form = kVariadic;
      n = 2 + static_cast<int>(g.Draw(2));
      kind = g.Flip() ? kMixedEvenShared : kAllUnique;  // (T, int[, T]) with position 0 shared or not
    } else if (form == kVariadic) {
      n = 1 + static_cast<int>(g.Draw(4));
    } else {
      n = static_cast<int>(g.Draw(6));  // 0..5, 0 = empty input
      if (kind >= kMixedOddShared) {
        kind = kind - 2;  // iterator ranges are homogeneous
      }
    }
    use_gate = g.Draw(3) == 2;
    for (int i = 0; i < n; ++i) {
      In in;
      in.outcome = static_cast<int>(g.Draw(3));
      in.mode = static_cast<int>(g.Draw(kModeCount));
      in.delay = g.Draw(4);
      in.late = g.Flip();
      in.id = 10U * static_cast<std::uint32_t>(i + 1) + g.Noise(9);
      in.shared = kind == kAllShared || (kind == kMixedOddShared && (i % 2) == 1) || (kind == kMixedEvenShared && (i % 2) == 0);
      if (comb == kWhenAllTuple && i > 0) {
        in.shared = false;
      }
      in.by_coroutine = g.Draw(3) == 2;
      ins.push_back(in);
    }
    consumer = static_cast<int>(g.Draw(2));
    keep_shared_copies = g.Flip();
    // other waiters on the shared inputs: a SubscribeInline callback attached before the combinator registers, and/or a second
    // combinator (Join<None>) over copies of the same shared inputs
    extra_waiters = g.Flip();
    aux_join = g.Draw(3) == 2;
    pool_workers = 1 + g.Draw(2);
    DecideGate();
  }

  // The gate (late producers held back until the consumer has seen the output) is used only when the early inputs
  // alone decide the output according to the statement.
  void DecideGate() {
    gate_applies = false;
    if (!use_gate || ins.empty()) {
      return;
    }
    bool any_late = false, early_fail = false, early_value = false, any_early = false;
    for (auto& in : ins) {
      any_late = any_late || in.late;
      if (!in.late) {
        any_early = true;
        early_fail = early_fail || in.outcome != 0;
        early_value = early_value || in.outcome == 0;
      }
    }
    if (!any_late) {
      return;
    }
    if (comb == kWhenAny) {
      gate_applies = policy == 0 ? any_early : early_value;  // None: anything; FirstFail/LastFail: a value decides
    } else {
      gate_applies = policy == 1 && early_fail;  // FirstFail: an early failure decides
    }
    if (!gate_applies) {
      for (auto& in : ins) {
        in.late = false;
      }
    }
  }

  void Describe(sim::Json& j) const final {
    j.KV("combinator", kCombNames[comb]).KV("policy", kPolicyNames[policy]).KV("form", form == kVariadic ? "variadic" : "iterator");
    j.KV("input_kind", comb == kWhenAllTuple ? (kind == kAllUnique ? "Future<T>, Future<int>[, Future<T>]" : "SharedFuture<T>, Future<int>[, Future<T>]") : kKindNames[kind]);
    j.Key("inputs").Arr();
    for (auto& in : ins) {
      j.Obj().KV("outcome", kOutNames[in.outcome]).KV("completed_by", kModeNames[in.mode]).KV("delay", in.delay).KV("shared", in.shared).KV("produced_by", in.by_coroutine ? "coroutine" : "promise");
      if (gate_applies) {
        j.KV("held_until_output_seen", in.late);
      }
      j.End();
    }
    j.EndArr();
    j.KV("gate", gate_applies).KV("consumer", consumer == 0 ? "Get" : "Wait+Touch").KV("shared_copies_kept_by_caller", keep_shared_copies).KV("subscribers_attached_to_shared_inputs_first", extra_waiters).KV("second_combinator_over_the_same_shared_inputs", aux_join).KV("pool_workers", pool_workers);
  }

  // ------------------------------------------------------------------------------------------------- inputs at run time
  template <typename V>
  struct Inputs {
    std::vector<yaclib::Future<V, E>> uf;
    std::vector<yaclib::SharedFuture<V, E>> sf;
    std::vector<yaclib::Promise<V, E>> up;
    std::vector<yaclib::SharedPromise<V, E>> sp;
    std::vector<yaclib::Promise<void, E>> gate;  // inputs produced by a coroutine: it waits for this gate, then co_returns / throws
  };
  Inputs<T> it;
  Inputs<void> iv;
  Inputs<int> ii;  // tuple form, position 1

  template <typename V>
  void MakeInput(Inputs<V>& x, std::size_t n) {
    x.uf.resize(n);
    x.sf.resize(n);
    x.up.resize(n);
    x.sp.resize(n);
    x.gate.resize(n);
  }

  template <typename V, typename R>
  static R CoInput(Case* c, std::size_t i, yaclib::Future<void, E> gate) {
    co_await yaclib::Await(gate);
    In& in = c->ins[i];
    sim::RaceWrite(&in.cell, sizeof in.cell);
    in.cell = in.id;
    in.set_invoke = sim::Seq();
    if (in.outcome == 2) {
      throw sim::TaggedEx{in.id};
    }
    if (in.outcome == 1) {
      co_return E{in.id};
    }
    if constexpr (std::is_void_v<V>) {
      co_return {};
    } else if constexpr (std::is_same_v<V, int>) {
      co_return static_cast<int>(in.id);
    } else {
      co_return T{in.id};
    }
  }

  template <typename V, typename P>
  void Fulfil(P p, In& in) {
    sim::RaceWrite(&in.cell, sizeof in.cell);
    in.cell = in.id;
    in.set_invoke = sim::Seq();
    if (in.outcome == 1) {
      std::move(p).Set(E{in.id});
    } else if (in.outcome == 2) {
      std::move(p).Set(sim::MakeEx(in.id));
    } else if constexpr (std::is_void_v<V>) {
      std::move(p).Set();
    } else if constexpr (std::is_same_v<V, int>) {
      std::move(p).Set(static_cast<int>(in.id));
    } else {
      std::move(p).Set(T{in.id});
    }
    in.set_return = sim::Seq();
  }

  template <typename V>
  void Complete(Inputs<V>& x, std::size_t i) {
    In& in = ins[i];
    if (in.by_coroutine) {
      std::move(x.gate[i]).Set();
      in.set_return = sim::Seq();
      return;
    }
    if (in.shared) {
      Fulfil<V>(std::move(x.sp[i]), in);
    } else {
      Fulfil<V>(std::move(x.up[i]), in);
    }
  }

  template <typename V>
  void Prepare(Inputs<V>& x, std::size_t i) {
    if (ins[i].by_coroutine) {
      SIM_PROBE("input_produced_by_coroutine");
      auto [gf, gp] = yaclib::MakeContract<void, E>();
      x.gate[i] = std::move(gp);
      if (ins[i].shared) {
        x.sf[i] = CoInput<V, yaclib::SharedFuture<V, E>>(this, i, std::move(gf));
      } else {
        x.uf[i] = CoInput<V, yaclib::Future<V, E>>(this, i, std::move(gf));
      }
      return;
    }
    if (ins[i].shared) {
      auto [f, p] = yaclib::MakeSharedContract<V, E>();
      x.sf[i] = std::move(f);
      x.sp[i] = std::move(p);
    } else {
      auto [f, p] = yaclib::MakeContract<V, E>();
      x.uf[i] = std::move(f);
      x.up[i] = std::move(p);
    }
  }

  template <typename V>
  Inputs<V>& InputsOf(std::size_t i) {
    if constexpr (std::is_same_v<V, int>) {
      (void)i;
      return ii;
    } else if constexpr (std::is_void_v<V>) {
      (void)i;
      return iv;
    } else {
      (void)i;
      return it;
    }
  }

  bool IsIntPos(std::size_t i) const {
    return comb == kWhenAllTuple && i == 1;
  }

  void CompleteAny(std::size_t i) {
    if (IsIntPos(i)) {
      Complete<int>(ii, i);
    } else if (comb == kJoin) {
      Complete<void>(iv, i);
    } else {
      Complete<T>(it, i);
    }
  }

  // ------------------------------------------------------------------------------------------------- calling the combinators
  template <typename V, bool Shared>
  auto Take(std::size_t i) {
    auto& x = InputsOf<V>(i);
    if constexpr (Shared) {
      if (keep_shared_copies) {
        return yaclib::SharedFuture<V, E>{x.sf[i]};
      }
      return std::move(x.sf[i]);
    } else {
      return std::move(x.uf[i]);
    }
  }

  template <typename V, unsigned Mask, typename Fn, std::size_t... I>
  auto Variadic(Fn&& fn, std::index_sequence<I...>) {
    return fn(Take<V, ((Mask >> I) & 1U) != 0>(I)...);
  }

  static unsigned MaskOf(int kind, std::size_t n) {
    const unsigned full = (1U << n) - 1U;
    switch (kind) {
      case kAllUnique: return 0;
      case kAllShared: return full;
      case kMixedOddShared: return 0xAU & full;
      default: return 0x5U & full;
    }
  }

  // calls fn(futures...) for the run-time (n, mask); Out receives the resulting future
  template <typename V, typename Fn, typename Out>
  void DispatchVariadic(Fn&& fn, Out& out) {
    const std::size_t n = ins.size();
    const unsigned mask = MaskOf(kind, n);
#define SIM_CASE(N, M)                                                                                                 \
  if (n == (N) && mask == (M)) {                                                                                       \
    out = Variadic<V, (M)>(fn, std::make_index_sequence<(N)>{});                                                       \
    return;                                                                                                            \
  }
    SIM_CASE(1, 0x0) SIM_CASE(1, 0x1)
    SIM_CASE(2, 0x0) SIM_CASE(2, 0x3) SIM_CASE(2, 0x2) SIM_CASE(2, 0x1)
    SIM_CASE(3, 0x0) SIM_CASE(3, 0x7) SIM_CASE(3, 0x2) SIM_CASE(3, 0x5)
    SIM_CASE(4, 0x0) SIM_CASE(4, 0xF) SIM_CASE(4, 0xA) SIM_CASE(4, 0x5)
#undef SIM_CASE
    sim::Fail("HARNESS", "no variadic instantiation for n=%zu mask=%u", n, mask);
  }

  template <typename V, typename Fn, typename Out>
  void DispatchIterator(Fn&& fn, Out& out) {
    auto& x = InputsOf<V>(0);
    const std::size_t n = ins.size();
    if (kind == kAllShared) {
      if (keep_shared_copies) {
        std::vector<yaclib::SharedFuture<V, E>> copy = x.sf;
        out = fn(copy.begin(), n);
      } else {
        out = fn(x.sf.begin(), n);
        x.sf.clear();
      }
    } else {
      out = fn(x.uf.begin(), n);
    }
  }

  // outputs (exactly one is used per run)
  yaclib::Future<std::vector<T>, E> out_all_ff;
  yaclib::Future<std::vector<yaclib::Result<T, E>>, E> out_all_none;
  yaclib::Future<void, E> out_join;
  yaclib::Future<T, E> out_any;
  yaclib::Future<std::tuple<T, int>, E> out_t2_ff;
  yaclib::Future<std::tuple<T, int, T>, E> out_t3_ff;
  yaclib::Future<std::tuple<yaclib::Result<T, E>, yaclib::Result<int, E>>, E> out_t2_none;
  yaclib::Future<std::tuple<yaclib::Result<T, E>, yaclib::Result<int, E>, yaclib::Result<T, E>>, E> out_t3_none;

  template <FailPolicy F>
  void CallAll() {
    auto var = [](auto... fs) {
      return yaclib::WhenAll<F>(std::move(fs)...);
    };
    auto iter = [](auto begin, std::size_t n) {
      return yaclib::WhenAll<F>(begin, n);
    };
    auto& out = [this]() -> auto& {
      if constexpr (F == FailPolicy::FirstFail) {
        return out_all_ff;
      } else {
        return out_all_none;
      }
    }();
    if (form == kVariadic) {
      DispatchVariadic<T>(var, out);
    } else {
      DispatchIterator<T>(iter, out);
    }
  }

  template <FailPolicy F>
  void CallJoin() {
    auto var = [](auto... fs) {
      return yaclib::Join<F>(std::move(fs)...);
    };
    auto iter = [](auto begin, std::size_t n) {
      return yaclib::Join<F>(begin, n);
    };
    if (form == kVariadic) {
      DispatchVariadic<void>(var, out_join);
    } else {
      DispatchIterator<void>(iter, out_join);
    }
  }

  template <FailPolicy F>
  void CallAny() {
    auto var = [](auto... fs) {
      return yaclib::WhenAny<F>(std::move(fs)...);
    };
    auto iter = [](auto begin, std::size_t n) {
      return yaclib::WhenAny<F>(begin, n);
    };
    if (form == kVariadic) {
      DispatchVariadic<T>(var, out_any);
    } else {
      DispatchIterator<T>(iter, out_any);
    }
  }

  template <FailPolicy F>
  void CallTuple() {
    const bool s0 = ins[0].shared;
    auto& o2 = [this]() -> auto& {
      if constexpr (F == FailPolicy::FirstFail) {
        return out_t2_ff;
      } else {
        return out_t2_none;
      }
    }();
    auto& o3 = [this]() -> auto& {
      if constexpr (F == FailPolicy::FirstFail) {
        return out_t3_ff;
      } else {
        return out_t3_none;
      }
    }();
    if (ins.size() == 2) {
      if (s0) {
        o2 = yaclib::WhenAll<F>(Take<T, true>(0), Take<int, false>(1));
      } else {
        o2 = yaclib::WhenAll<F>(Take<T, false>(0), Take<int, false>(1));
      }
    } else {
      if (s0) {
        o3 = yaclib::WhenAll<F>(Take<T, true>(0), Take<int, false>(1), Take<T, false>(2));
      } else {
        o3 = yaclib::WhenAll<F>(Take<T, false>(0), Take<int, false>(1), Take<T, false>(2));
      }
    }
  }

  template <typename V>
  void AttachOthers(Inputs<V>& x) {
    std::vector<yaclib::SharedFuture<V, E>> copies;
    for (std::size_t i = 0; i < ins.size() && i < x.sf.size(); ++i) {
      if (!ins[i].shared || !x.sf[i].Valid()) {
        continue;
      }
      if (extra_waiters) {
        SIM_PROBE("subscriber_attached_to_a_shared_input_first");
        x.sf[i].SubscribeInline([this, i](const yaclib::Result<V, E>& r) {
          ++sub_calls[i];
          sub_got[i] = sim::Observe(r, "subscriber attached to a shared input before the combinator");
        });
      }
      if (aux_join) {
        copies.push_back(x.sf[i]);
      }
    }
    if (aux_join && !copies.empty()) {
      SIM_PROBE("second_combinator_over_the_same_shared_inputs");
      aux_inputs = copies.size();
      aux_out = yaclib::Join<FailPolicy::None>(copies.begin(), copies.size());
    }
  }

  void CallCombinator() {
    sub_calls.assign(ins.size(), 0);
    sub_got.assign(ins.size(), Outcome{});
    if (comb == kJoin) {
      AttachOthers<void>(iv);
    } else {
      AttachOthers<T>(it);
    }
    when_invoke = sim::Seq();
    switch (comb) {
      case kWhenAll:
        if (policy == 1) {
          CallAll<FailPolicy::FirstFail>();
        } else {
          CallAll<FailPolicy::None>();
        }
        break;
      case kJoin:
        if (policy == 1) {
          CallJoin<FailPolicy::FirstFail>();
        } else {
          CallJoin<FailPolicy::None>();
        }
        break;
      case kWhenAllTuple:
        if (policy == 1) {
          CallTuple<FailPolicy::FirstFail>();
        } else {
          CallTuple<FailPolicy::None>();
        }
        break;
      default:
        if (policy == 2) {
          CallAny<FailPolicy::LastFail>();
        } else if (policy == 1) {
          CallAny<FailPolicy::FirstFail>();
        } else {
          CallAny<FailPolicy::None>();
        }
        break;
    }
    when_return = sim::Seq();
  }

  // ------------------------------------------------------------------------------------------------- observing the output
  struct Observed {
    bool have = false;
    Outcome top;                   // value:0 / error:code / exception:id of the output Result itself
    std::vector<Outcome> elems;    // per input (WhenAll forms with a value output)
    std::uint64_t at = 0;
  };
  Observed obs;

  static Outcome ElemOf(const T& t) {
    const std::uint32_t id = t.Read("element of the WhenAll output");
    return id == 0xFFFFFFFFU ? Outcome{OKind::Bad, 0} : Outcome{OKind::Value, id};
  }
  static Outcome ElemOf(int v) {
    return {OKind::Value, static_cast<std::uint32_t>(v)};
  }
  template <typename V>
  static Outcome ElemOf(const yaclib::Result<V, E>& r) {
    return sim::Observe(r, "element of the WhenAll<None> output");
  }

  template <typename V>
  Outcome TopOf(const yaclib::Result<V, E>& r) {
    switch (r.State()) {
      case yaclib::ResultState::Value: return {OKind::Value, 0};
      case yaclib::ResultState::Exception: return sim::OutcomeOfEx(r.Exception());
      case yaclib::ResultState::Error: return sim::OutcomeOfErr(r.Error(), "output error");
      default: return {OKind::Empty, 0};
    }
  }

  template <typename... Vs>
  void ReadTuple(const std::tuple<Vs...>& t) {
    std::apply([this](const auto&... e) { (obs.elems.push_back(ElemOf(e)), ...); }, t);
  }

  template <typename V>
  void ReadValue(const V& v) {
    if constexpr (std::is_same_v<V, yaclib::Unit>) {
      (void)v;
    } else if constexpr (std::is_same_v<V, T>) {
      obs.top = ElemOf(v);  // WhenAny: the winner's value
    } else if constexpr (std::is_same_v<V, std::vector<T>> || std::is_same_v<V, std::vector<yaclib::Result<T, E>>>) {
      for (auto& e : v) {
        obs.elems.push_back(ElemOf(e));
      }
    } else {
      ReadTuple(v);
    }
  }

  template <typename F>
  void Consume(F& f) {
    if (!f.Valid()) {
      invalid_output = true;
      return;
    }
    if (gate_applies) {
      // everything that is not held back has completed once the virtual clock can jump; the output must be ready now
      sim::SleepNs(20'000'000);
      if (!f.Ready()) {
        sim::Fail("NOT_COMPLETED_WHEN_DECIDED", "the inputs completed so far decide the output (policy %s), but it is not ready while the other inputs are still pending",
                  kPolicyNames[policy]);
      } else {
        SIM_PROBE("output_ready_while_inputs_pending");
      }
    }
    if (consumer == 0) {
      auto r = std::move(f).Get();
      obs.at = sim::Seq();
      obs.have = true;
      obs.top = TopOf(r);
      if (r) {
        ReadValue(std::as_const(r).Value());
      }
    } else {
      yaclib::Wait(f);
      obs.at = sim::Seq();
      if (!f.Ready()) {
        sim::Fail("WAIT_NOT_READY", "Wait returned but the combinator's future is not Ready");
      }
      const auto& r = std::as_const(f).Touch();
      obs.have = true;
      obs.top = TopOf(r);
      if (r) {
        ReadValue(r.Value());
      }
      first_top = obs.top;
      kept_for_resample = true;
      if (comb != kWhenAny) {
        first_top = TopOf(r);
      }
    }
    ReadVisibleCells();
  }

  // What the producers wrote before fulfilling the inputs that the output depends on must be visible to whoever
  // observed the output (C04): all inputs when the output carries all of them, otherwise the winning input.
  void ReadVisibleCells() {
    const bool all = comb != kWhenAny && (policy == 0 || obs.top.kind == OKind::Value);
    for (auto& in : ins) {
      const bool winner = !all && ((in.outcome == 0 && obs.top == Outcome{OKind::Value, in.id}) || (in.outcome == 1 && obs.top == Outcome{OKind::Error, in.id}) ||
                                   (in.outcome == 2 && obs.top == Outcome{OKind::Exception, in.id}));
      if (all || winner) {
        sim::RaceRead(&in.cell, sizeof in.cell);
        if (in.cell != in.id) {
          sim::Fail("STALE_PAYLOAD", "the output was observed, but what the producer of an input it carries wrote before fulfilling is not visible");
        }
      }
    }
  }

  template <typename F>
  void Resample(F& f) {
    if (!kept_for_resample || !f.Valid()) {
      return;
    }
    // later completions must not change the output
    const auto& r = std::as_const(f).Touch();
    Outcome again = TopOf(r);
    if (r) {
      if constexpr (std::is_same_v<std::decay_t<decltype(r.Value())>, T>) {
        again = ElemOf(r.Value());
      }
    }
    if (again != first_top) {
      sim::Fail("OUTPUT_CHANGED", "the output was %s when first observed and %s after all inputs completed", first_top.Str().c_str(), again.Str().c_str());
    }
    auto dead = std::move(f);
    (void)dead;
  }

  template <typename Fn>
  void WithOutput(Fn&& fn) {
    switch (comb) {
      case kWhenAll:
        if (policy == 1) {
          fn(out_all_ff);
        } else {
          fn(out_all_none);
        }
        break;
      case kJoin: fn(out_join); break;
      case kWhenAllTuple:
        if (ins.size() == 2) {
          if (policy == 1) {
            fn(out_t2_ff);
          } else {
            fn(out_t2_none);
          }
        } else if (policy == 1) {
          fn(out_t3_ff);
        } else {
          fn(out_t3_none);
        }
        break;
      default: fn(out_any); break;
    }
  }

  // ------------------------------------------------------------------------------------------------- Run
  void Run() final {
    const std::size_t n = ins.size();
    yaclib::FairThreadPool pool{pool_workers};
    MakeInput(it, n);
    MakeInput(iv, n);
    MakeInput(ii, n);
    for (std::size_t i = 0; i < n; ++i) {
      if (IsIntPos(i)) {
        Prepare<int>(ii, i);
      } else if (comb == kJoin) {
        Prepare<void>(iv, i);
      } else {
        Prepare<T>(it, i);
      }
    }
    std::deque<yaclib_std::thread> ts;
    for (std::size_t i = 0; i < n; ++i) {
      In& in = ins[i];
      if (in.late) {
        // held back until the consumer has seen the output
        ts.emplace_back([this, i] {
          sim::SleepNs(30'000'000);  // longer than the consumer's look at the output (20 ms of virtual time)
          CompleteAny(i);
        });
      } else if (in.mode == kPre) {
        CompleteAny(i);
      } else if (in.mode == kFiber) {
        ts.emplace_back([this, i] {
          for (std::uint32_t y = 0; y < ins[i].delay; ++y) {
            sim::Yield();
          }
          CompleteAny(i);
        });
      } else {
        yaclib::Submit(pool, [this, i] {
          for (std::uint32_t y = 0; y < ins[i].delay; ++y) {
            sim::Point();
          }
          CompleteAny(i);
        });
      }
    }
    CallCombinator();
    // the caller's own handles: all moved-from or (shared, kept) released at a generated moment
    WithOutput([this](auto& f) { Consume(f); });
    for (auto& t : ts) {
      t.join();
    }
    pool.SoftStop();
    pool.Wait();
    WithOutput([this](auto& f) { Resample(f); });
    // shared inputs whose handles the caller kept: the combinator was one observer among others, so the kept copies must
    // still hold what their producers set (a value may be moved out only by the provably last owner)
    if (keep_shared_copies) {
      for (std::size_t i = 0; i < ins.size() && i < it.sf.size(); ++i) {
        if (!ins[i].shared || !it.sf[i].Valid()) {
          continue;
        }
        if (!it.sf[i].Ready()) {
          sim::Fail("LOST", "shared input %zu is not Ready although its producer finished", i);
          continue;
        }
        SIM_PROBE("kept_shared_input_read_after_combinator");
        const Outcome got = sim::Observe(std::as_const(it.sf[i]).Get(), "kept copy of a shared input, read after the combinator finished");
        if (!sim::Failed() && got != Expected(ins[i])) {
          sim::Fail("INPUT_DAMAGED", "shared input %zu: the caller's kept copy now holds %s, its producer set %s", i, got.Str().c_str(), Expected(ins[i]).Str().c_str());
        }
      }
    }
    for (std::size_t i = 0; i < ins.size(); ++i) {
      if (extra_waiters && ins[i].shared && i < sub_calls.size() && !sim::Failed()) {
        const bool attached = comb == kJoin ? i < iv.sf.size() : i < it.sf.size();
        if (!attached) {
          continue;
        }
        if (sub_calls[i] != 1) {
          sim::Fail(sub_calls[i] == 0 ? "OTHER_WAITER_LOST" : "OTHER_WAITER_DUPLICATED", "the subscriber attached to shared input %zu before the combinator ran %d times", i,
                    sub_calls[i]);
        } else if (sub_got[i].kind != Expected(ins[i]).kind || (comb != kJoin && sub_got[i] != Expected(ins[i]))) {
          sim::Fail("OTHER_WAITER_WRONG_RESULT", "the subscriber attached to shared input %zu saw %s, its producer set %s", i, sub_got[i].Str().c_str(),
                    Expected(ins[i]).Str().c_str());
        }
      }
    }
    if (aux_join && aux_out.Valid() && !sim::Failed()) {
      if (!aux_out.Ready()) {
        sim::Fail("OTHER_WAITER_LOST", "a second combinator over the same %zu shared inputs never completed although all of them did", aux_inputs);
      }
      aux_out = {};
    }
    it = Inputs<T>{};
    iv = Inputs<void>{};
    ii = Inputs<int>{};
  }

  // ------------------------------------------------------------------------------------------------- oracle
  struct Iv {
    std::uint64_t lo, hi;
  };
  Iv Arrival(const In& in) const {
    return Iv{std::max(in.set_invoke, when_invoke), std::max(in.set_return, when_return)};
  }

  static Outcome Expected(const In& in) {
    if (in.outcome == 1) {
      return {OKind::Error, in.id};
    }
    if (in.outcome == 2) {
      return {OKind::Exception, in.id};
    }
    return {OKind::Value, in.id};
  }

  void Finish() final {
    if (sim::Failed()) {
      return;
    }
    const std::size_t n = ins.size();
    if (n == 0) {
      SIM_CHECK(invalid_output, "EMPTY_INPUT_VALID", "an empty input set must give an invalid future");
      SIM_COUNT("cell_empty_input");
      return;
    }
    SIM_CHECK(!invalid_output, "LOST", "the combinator returned an invalid future for %zu inputs", n);
    SIM_CHECK(obs.have, "LOST", "the output was never observed");
    if (sim::Failed()) {
      return;
    }
    {
      char name[96];
      std::snprintf(name, sizeof name, "cell_%s_%s_%s_%s", kCombNames[comb], kPolicyNames[policy], form == kVariadic ? "variadic" : "iterator", kKindNames[kind]);
      sim::CountDyn(name);
    }
    for (auto& in : ins) {
      SIM_CHECK(in.set_invoke != 0, "HARNESS", "an input was never completed");
    }
    std::vector<std::size_t> fails, values;
    for (std::size_t i = 0; i < n; ++i) {
      (ins[i].outcome == 0 ? values : fails).push_back(i);
    }
    std::uint64_t last_set_invoke = 0;
    for (auto& in : ins) {
      last_set_invoke = std::max(last_set_invoke, in.set_invoke);
    }
    auto id_of = [&](Outcome o) -> long {
      for (std::size_t i = 0; i < n; ++i) {
        if (Expected(ins[i]) == o) {
          return static_cast<long>(i);
        }
      }
      return -1;
    };
    if (comb != kWhenAny) {
      const bool fail_decides = policy == 1 && !fails.empty();
      if (!fail_decides) {
        // all inputs, in input order, regardless of completion order; only after every input was (being) completed
        SIM_CHECK(obs.top.kind == OKind::Value, "WRONG_RESULT", "output is %s although %s", obs.top.Str().c_str(),
                  policy == 1 ? "no input failed" : "the policy is None");
        SIM_CHECK(obs.at > last_set_invoke, "EARLY", "output observed (seq %llu) before the last input began to complete (seq %llu)",
                  (unsigned long long)obs.at, (unsigned long long)last_set_invoke);
        if (comb != kJoin) {
          SIM_CHECK(obs.elems.size() == n, "WRONG_RESULT", "output has %zu elements for %zu inputs", obs.elems.size(), n);
          for (std::size_t i = 0; i < n && i < obs.elems.size(); ++i) {
            const Outcome want = Expected(ins[i]);
            if (obs.elems[i] != want) {
              sim::Fail("WRONG_RESULT", "output[%zu] is %s, input %zu completed with %s", i, obs.elems[i].Str().c_str(), i, want.Str().c_str());
              return;
            }
          }
        }
        if (!fails.empty()) {
          SIM_PROBE("policy_none_with_failures");
        }
      } else {
        const long f = (obs.top.kind == OKind::Error || obs.top.kind == OKind::Exception) ? id_of(obs.top) : -1;
        if (f < 0 || ins[static_cast<std::size_t>(f)].outcome == 0) {
          sim::Fail("WRONG_RESULT", "FirstFail with failing inputs: output is %s, which is not the failure of any input", obs.top.Str().c_str());
          return;
        }
        const Iv fa = Arrival(ins[static_cast<std::size_t>(f)]);
        for (std::size_t g : fails) {
          if (static_cast<long>(g) != f && Arrival(ins[g]).hi < fa.lo) {
            sim::Fail("NOT_FIRST_FAILURE", "output carries the failure of input %ld, but input %zu had failed strictly earlier", f, g);
            return;
          }
        }
        SIM_CHECK(obs.at > ins[static_cast<std::size_t>(f)].set_invoke, "EARLY", "output observed before the failing input began to complete");
        if (fails.size() >= 2) {
          SIM_PROBE("two_or_more_failures");
        }
      }
      return;
    }
    // ---- WhenAny
    const long w = id_of(obs.top);
    if (w < 0) {
      sim::Fail("WRONG_RESULT", "WhenAny output %s is not the outcome of any input", obs.top.Str().c_str());
      return;
    }
    const In& win = ins[static_cast<std::size_t>(w)];
    const Iv wa = Arrival(win);
    SIM_CHECK(obs.at > win.set_invoke, "EARLY", "output observed before the winning input began to complete");
    if (policy == 0) {
      for (std::size_t g = 0; g < n; ++g) {
        if (static_cast<long>(g) != w && Arrival(ins[g]).hi < wa.lo) {
          sim::Fail("NOT_FIRST", "policy None: output is input %ld, but input %zu had completed strictly earlier", w, g);
          return;
        }
      }
    } else if (!values.empty()) {
      if (win.outcome != 0) {
        sim::Fail("WRONG_RESULT", "policy %s with %zu succeeding inputs: output is the failure %s", kPolicyNames[policy], values.size(), obs.top.Str().c_str());
        return;
      }
      for (std::size_t g : values) {
        if (static_cast<long>(g) != w && Arrival(ins[g]).hi < wa.lo) {
          sim::Fail("NOT_FIRST_VALUE", "output is the value of input %ld, but input %zu had produced a value strictly earlier", w, g);
          return;
        }
      }
      if (!fails.empty()) {
        SIM_PROBE("value_won_over_failures");
      }
    } else if (policy == 2) {
      SIM_CHECK(obs.at > last_set_invoke, "EARLY", "LastFail, all inputs fail: output observed before the last input began to complete");
      for (std::size_t g = 0; g < n; ++g) {
        if (static_cast<long>(g) != w && Arrival(ins[g]).lo > wa.hi) {
          sim::Fail("NOT_LAST_FAILURE", "LastFail, all inputs fail: output is the failure of input %ld, but input %zu failed strictly later", w, g);
          return;
        }
      }
      SIM_PROBE("all_failed_lastfail");
    } else {
      SIM_CHECK(obs.at > last_set_invoke, "EARLY", "FirstFail, all inputs fail: output observed before the last input began to complete");
      for (std::size_t g = 0; g < n; ++g) {
        if (static_cast<long>(g) != w && Arrival(ins[g]).hi < wa.lo) {
          sim::Fail("NOT_FIRST_FAILURE", "FirstFail, all inputs fail: output is the failure of input %ld, but input %zu failed strictly earlier", w, g);
          return;
        }
      }
      SIM_PROBE("all_failed_firstfail");
    }
  }

  const char* Known() const final {
    return nullptr;
  }

  std::string profile;
  int comb = 0, form = 0, kind = 0, policy = 1, consumer = 0;
  bool use_gate = false, gate_applies = false, keep_shared_copies = false, extra_waiters = false, aux_join = false;
  std::vector<int> sub_calls;
  std::vector<Outcome> sub_got;
  yaclib::Future<void, E> aux_out;
  std::size_t aux_inputs = 0;
  std::uint32_t pool_workers = 1;
  std::vector<In> ins;
  std::uint64_t when_invoke = 0, when_return = 0;
  bool invalid_output = false, kept_for_resample = false;
  Outcome first_top;
};

}  // namespace

SIM_HARNESS("C09", "when", Case,
            "WRONG_RESULT EARLY NOT_FIRST_FAILURE NOT_FIRST NOT_FIRST_VALUE NOT_LAST_FAILURE NOT_COMPLETED_WHEN_DECIDED OUTPUT_CHANGED EMPTY_INPUT_VALID INPUT_DAMAGED OTHER_WAITER_LOST OTHER_WAITER_DUPLICATED OTHER_WAITER_WRONG_RESULT LOST "
            "LEAK LEAK_OBJECT DOUBLE_DESTROY USE_AFTER_DESTROY MOVED_FROM_READ TORN DEADLOCK CRASH:*")
