#include "util.hpp"

namespace sim {
namespace detail {
int gCurExec[kMaxSlots];
std::uint64_t gCurJob[kMaxSlots];
}  // namespace detail

void Proxy::Submit(yaclib::Job& job) noexcept {
  const auto index = static_cast<std::uint32_t>(_jobs.size());
  _jobs.emplace_back();
  {
    auto& rec = _jobs[index];
    rec.submit_invoke = Seq();
    rec.submit_fiber = Fiber();
  }
  auto* pj = new ProxyJob;
  pj->proxy = this;
  pj->job = &job;
  pj->index = index;
  if (_reject_from >= 0 && static_cast<long long>(index) >= _reject_from) {
    _jobs[index].rejected_by_proxy = true;
    static const int id = CounterId("fault_submit_rejected");
    CounterAdd(id);
    pj->Drop();
  } else {
    _target->Submit(*pj);
  }
  _jobs[index].submit_return = Seq();
}

void ProxyJob::Call() noexcept {
  Proxy& p = *proxy;
  auto& rec = p._jobs[index];
  if (rec.call_begin != 0 || rec.drop_at != 0) {
    Fail("JOB_FINISHED_TWICE", "job %u of executor %d: Call after it was already %s", index, p._tag, rec.drop_at != 0 ? "dropped" : "called");
  }
  rec.call_begin = Seq();
  rec.run_fiber = Fiber();
  ++p._called;
  const int slot = Fiber();
  const int saved = detail::gCurExec[slot];
  const std::uint64_t saved_job = detail::gCurJob[slot];
  detail::gCurExec[slot] = p._tag;
  detail::gCurJob[slot] = (static_cast<std::uint64_t>(static_cast<std::uint32_t>(p._tag)) << 32U) | (1U + index);
  yaclib::Job* j = job;
  j->Call();
  // the proxy object outlives every job by construction of the scenarios; the record vector may have grown
  detail::gCurExec[Fiber()] = saved;
  detail::gCurJob[Fiber()] = saved_job;
  p._jobs[index].call_end = Seq();
  delete this;
}

void ProxyJob::Drop() noexcept {
  Proxy& p = *proxy;
  auto& rec = p._jobs[index];
  if (rec.call_begin != 0 || rec.drop_at != 0) {
    Fail("JOB_FINISHED_TWICE", "job %u of executor %d: Drop after it was already %s", index, p._tag, rec.drop_at != 0 ? "dropped" : "called");
  }
  rec.drop_at = Seq();
  ++p._dropped;
  if (!rec.rejected_by_proxy && p._stop_invoked == 0 && p._target->Alive()) {
    Fail("DROP_WITHOUT_STOP", "job %u of executor %d was Dropped although no stop had been requested", index, p._tag);
  }
  yaclib::Job* j = job;
  j->Drop();
  delete this;
}

void Proxy::CheckQuiescent(const char* what) const {
  for (std::size_t i = 0; i < _jobs.size(); ++i) {
    const auto& r = _jobs[i];
    const int n = (r.call_begin != 0 ? 1 : 0) + (r.drop_at != 0 ? 1 : 0);
    if (n != 1) {
      Fail(n == 0 ? "JOB_LOST" : "JOB_FINISHED_TWICE", "%s: job %zu of executor %d got %s", what, i, _tag,
           n == 0 ? "neither Call nor Drop" : "both Call and Drop");
      return;
    }
    if (r.call_begin != 0 && r.call_end == 0) {
      Fail("JOB_LOST", "%s: job %zu of executor %d started but never finished", what, i, _tag);
      return;
    }
  }
  if (_refs != 0) {
    Fail("EXECUTOR_REF_LEAK", "%s: executor %d still has %lld references at quiescence (%llu acquired)", what, _tag, _refs,
         static_cast<unsigned long long>(_inc));
  }
}

}  // namespace sim

namespace sim::detail {
void ThrowBomb(std::uint32_t id) {
  throw TaggedEx{id};
}
}  // namespace sim::detail
