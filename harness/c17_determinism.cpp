// C17 — Fiber fault-injection runs are reproducible from their seed (DESIGN §3 C17).
// The system under test here is the repo's *built-in* seeded behaviour: no choice hook is installed, only the add-only
// trace callback (on_resume). The harness drives whole scheduler sessions itself, outside the simulator's own run.
#include <sim/util.hpp>

#include <yaclib/async/contract.hpp>
#include <yaclib/async/run.hpp>
#include <yaclib/async/wait.hpp>
#include <yaclib/async/wait_for.hpp>
#include <yaclib/async/when_all.hpp>
#include <yaclib/async/when_any.hpp>
#include <yaclib/coro/await.hpp>
#include <yaclib/coro/future.hpp>
#include <yaclib/coro/mutex.hpp>
#include <yaclib/coro/on.hpp>
#include <yaclib/coro/shared_mutex.hpp>
#include <yaclib/algo/one_shot_event.hpp>
#include <yaclib/async/shared_contract.hpp>
#include <yaclib/exe/strand.hpp>
#include <yaclib/exe/submit.hpp>
#include <yaclib/fault/config.hpp>
#include <yaclib/fault/detail/fiber/scheduler.hpp>
#include <yaclib/fault/inject.hpp>
#include <yaclib/fault/verif_hook.hpp>
#include <yaclib/runtime/fair_thread_pool.hpp>

#include <chrono>
#include <cstdlib>
#include <deque>
#include <vector>
#include <yaclib_std/atomic>
#include <yaclib_std/chrono>
#include <yaclib_std/condition_variable>
#include <yaclib_std/mutex>
#include <yaclib_std/random>
#include <yaclib_std/thread>

namespace {

enum Prog : int { kPoolStrand, kTimedWaits, kCoroMutex, kCombinators, kCondVarPingPong, kRandomDevice, kTryOnce, kProgCount };
const char* kProgNames[] = {"pool+strand", "timed waits", "coroutines+mutex", "combinators on a pool", "condvar ping-pong with timed waits",
                            "clients of yaclib_std::random::random_device",
                            "try-once users of compare_exchange_weak (try-lock word, SharedMutex::TryLock*, OneShotEvent::TryAdd vs Set, SharedFuture callbacks vs Set)"};
const std::uint32_t kFreqs[] = {1, 2, 5, 16};
const std::uint32_t kPicks[] = {1, 3, 10};
const std::uint32_t kTicks[] = {1, 10};

struct Params {
  int prog = 0;
  std::uint32_t a = 1, b = 1, c = 0;
};

struct Trace {
  std::vector<std::uint32_t> resumes;   // fiber ids renumbered by first appearance
  std::vector<std::uint64_t> events;    // client event log
  std::uint64_t rand_delta = 0, inj_delta = 0;
  std::uint64_t rand0 = 0;  // process-lifetime random count when the session began (0 in a fresh process)
  std::vector<std::size_t> seg_resume, seg_event;           // suite: start of every program's segment
  std::vector<std::uint64_t> seg_rand;                      // suite: GetFaultRandomCount before every program
  std::vector<std::uint32_t> seg_inj;                       //        GetInjectorState before every program
  std::vector<std::uint64_t> raw;                           // raw fiber ids as resumed
  bool finished = false;
};

Trace* gTrace = nullptr;

void OnResume(std::uint64_t id) {
  if (gTrace != nullptr) {
    gTrace->raw.push_back(id);
  }
}

void Ev(std::uint64_t v) {
  gTrace->events.push_back(v);
}

// ------------------------------------------------------------------------------------------------- client programs
void ProgPoolStrand(const Params& p) {
  yaclib::FairThreadPool tp{1 + p.a % 3};
  auto strand = yaclib::MakeStrand(&tp);
  int cell = 0;
  std::deque<yaclib_std::thread> ts;
  for (std::uint32_t s = 0; s < 1 + p.b % 3; ++s) {
    ts.emplace_back([&, s] {
      for (std::uint32_t j = 0; j < 2 + p.c % 3; ++j) {
        yaclib::Submit(*strand, [&, s, j] {
          Ev(1000 + 100 * s + j);
          ++cell;
        });
        yaclib::Submit(tp, [&, s, j] {
          Ev(5000 + 100 * s + j);
        });
      }
    });
  }
  for (auto& t : ts) {
    t.join();
  }
  tp.SoftStop();
  tp.Wait();
  Ev(static_cast<std::uint64_t>(cell));
}

void ProgTimedWaits(const Params& p) {
  using namespace std::chrono;
  std::vector<yaclib::Future<int>> fs;
  std::deque<yaclib_std::thread> ts;
  for (std::uint32_t i = 0; i < 1 + p.a % 3; ++i) {
    auto [f, pr] = yaclib::MakeContract<int>();
    fs.push_back(std::move(f));
    ts.emplace_back([i, &p, pp = std::move(pr)]() mutable {
      yaclib_std::this_thread::sleep_for(nanoseconds{40 + 90 * i + p.b % 50});
      std::move(pp).Set(static_cast<int>(i));
    });
  }
  const bool ok = yaclib::WaitFor(nanoseconds{60 + (p.c % 4) * 80}, fs.begin(), fs.end());
  Ev(ok ? 1 : 0);
  for (auto& f : fs) {
    Ev(f.Ready() ? 1 : 0);
  }
  yaclib::Wait(fs.begin(), fs.end());
  for (auto& f : fs) {
    Ev(static_cast<std::uint64_t>(std::move(f).Get().Ok()));
  }
  for (auto& t : ts) {
    t.join();
  }
}

yaclib::Future<> MutexCoro(yaclib::FairThreadPool* tp, yaclib::Mutex<>* m, int w, int rounds, int* cs) {
  co_await yaclib::On(*tp);
  for (int i = 0; i < rounds; ++i) {
    auto g = co_await m->Guard();
    Ev(9000 + static_cast<std::uint64_t>(w) * 10 + static_cast<std::uint64_t>(i));
    ++*cs;
  }
  co_return {};
}

void ProgCoroMutex(const Params& p) {
  yaclib::FairThreadPool tp{1 + p.a % 3};
  yaclib::Mutex<> m;
  int cs = 0;
  std::vector<yaclib::Future<>> fs;
  for (std::uint32_t w = 0; w < 2 + p.b % 3; ++w) {
    fs.push_back(MutexCoro(&tp, &m, static_cast<int>(w), 1 + static_cast<int>(p.c % 3), &cs));
  }
  yaclib::Wait(fs.begin(), fs.end());
  fs.clear();
  tp.SoftStop();
  tp.Wait();
  Ev(static_cast<std::uint64_t>(cs));
}

void ProgCombinators(const Params& p) {
  yaclib::FairThreadPool tp{1 + p.a % 3};
  std::vector<yaclib::FutureOn<int>> fs;
  for (std::uint32_t i = 0; i < 2 + p.b % 3; ++i) {
    fs.push_back(yaclib::Run(tp, [i] {
      Ev(7000 + i);
      return static_cast<int>(i);
    }));
  }
  if ((p.c & 1U) != 0) {
    auto all = yaclib::WhenAll(fs.begin(), fs.size());
    auto v = std::move(all).Get().Ok();
    for (int x : v) {
      Ev(static_cast<std::uint64_t>(x));
    }
  } else {
    auto any = yaclib::WhenAny(fs.begin(), fs.size());
    Ev(static_cast<std::uint64_t>(std::move(any).Get().Ok()));
  }
  tp.SoftStop();
  tp.Wait();
}

void ProgCondVar(const Params& p) {
  using namespace std::chrono;
  yaclib_std::mutex m;
  yaclib_std::condition_variable cv;
  int turn = 0;
  const int rounds = 2 + static_cast<int>(p.a % 3);
  yaclib_std::atomic<int> spins{0};
  yaclib_std::thread other{[&] {
    for (int r = 0; r < rounds; ++r) {
      std::unique_lock lock{m};
      while (turn != 1) {
        if (cv.wait_for(lock, nanoseconds{50 + p.b % 100}) == std::cv_status::timeout) {
          spins.fetch_add(1, std::memory_order_relaxed);
        }
      }
      Ev(200 + static_cast<std::uint64_t>(r));
      turn = 0;
      cv.notify_one();
    }
  }};
  for (int r = 0; r < rounds; ++r) {
    std::unique_lock lock{m};
    turn = 1;
    Ev(100 + static_cast<std::uint64_t>(r));
    cv.notify_one();
    cv.wait(lock, [&] {
      return turn == 0;
    });
    if ((p.c & 1U) != 0) {
      lock.unlock();
      yaclib_std::this_thread::sleep_for(nanoseconds{30});
    }
  }
  other.join();
  Ev(static_cast<std::uint64_t>(spins.load()));
}

// every fiber owns a yaclib_std::random::random_device; what it draws decides how much contended work the fiber does, so anything the
// device depends on besides the seed (fiber ids, addresses, process history) shows up in the switch trace and in the events
void ProgRandomDevice(const Params& p) {
  yaclib_std::atomic<std::uint64_t> shared{0};
  yaclib_std::random::random_device root_rd;
  const std::uint32_t n = 2 + static_cast<std::uint32_t>(root_rd() % 3);
  Ev(n);
  std::deque<yaclib_std::thread> ts;
  for (std::uint32_t i = 0; i < n; ++i) {
    ts.emplace_back([&, i] {
      yaclib_std::random::random_device rd;
      const std::uint64_t x = rd();
      Ev(7000 + 1000 * i + x % 997);
      const std::uint32_t rounds = 1 + static_cast<std::uint32_t>(x % (2 + p.a % 3));
      for (std::uint32_t r = 0; r < rounds; ++r) {
        std::uint64_t cur = shared.load(std::memory_order_relaxed);
        while (!shared.compare_exchange_weak(cur, cur + 1 + rd() % 5, std::memory_order_acq_rel, std::memory_order_relaxed)) {
        }
      }
      if ((p.b & 1U) != 0) {
        rd.reset();
        Ev(8000 + 1000 * i + rd() % 997);
      }
    });
  }
  for (auto& t : ts) {
    t.join();
  }
  Ev(shared.load());
  if ((p.c & 1U) != 0) {
    yaclib_std::random::random_device token_rd{"token"};
    Ev(token_rd() % 997);
  }
}

// Weak compare-exchanges that are *not* retried: a session can end right after a spuriously failed one. Whatever the library
// remembers about such a failure must be part of what SetSeed / the (random count, injector state) checkpoint restore.
struct TryJob final : yaclib::Job {
  std::uint32_t id = 0;
  void Call() noexcept final {
    Ev(9500 + id);
  }
  void Drop() noexcept final {
  }
};

void ProgTryOnce(const Params& p) {
  yaclib_std::atomic<int> word{0};
  yaclib::SharedMutex<> sm;
  yaclib::OneShotEvent ev;
  auto [sf0, sp0] = yaclib::MakeSharedContract<int>();
  yaclib::SharedFuture<int> sf = std::move(sf0);
  yaclib::SharedPromise<int> sp = std::move(sp0);
  const std::uint32_t n = 2 + p.a % 3;
  const std::uint32_t rounds = 1 + p.b % 3;
  std::vector<TryJob> jobs(n);
  std::deque<yaclib_std::thread> ts;
  for (std::uint32_t i = 0; i < n; ++i) {
    ts.emplace_back([&, i, copy = sf] {
      for (std::uint32_t r = 0; r < rounds; ++r) {
        int expected = 0;
        if (word.compare_exchange_weak(expected, static_cast<int>(i) + 1, std::memory_order_acquire, std::memory_order_relaxed)) {
          Ev(9000 + 10 * i + r);
          (void)word.load(std::memory_order_relaxed);
          word.store(0, std::memory_order_release);
        } else {
          Ev(9100 + 10 * i + static_cast<std::uint32_t>(expected));
        }
        if (((p.c + i + r) & 1U) != 0) {
          if (sm.TryLockShared()) {
            Ev(9200 + i);
            sm.UnlockHereShared();
          } else {
            Ev(9250 + i);
          }
        } else if (sm.TryLock()) {
          Ev(9300 + i);
          sm.UnlockHere();
        } else {
          Ev(9350 + i);
        }
      }
      jobs[i].id = i;
      if (!ev.TryAdd(jobs[i])) {
        Ev(9400 + i);
      }
      copy.SubscribeInline([i](const yaclib::Result<int>& r) {
        Ev(9600 + 10 * i + static_cast<std::uint32_t>(r.Ok()));
      });
    });
  }
  ts.emplace_back([&] {
    for (std::uint32_t y = 0; y < p.c % 4; ++y) {
      yaclib_std::this_thread::yield();
    }
    ev.Set();
    std::move(sp).Set(1);
  });
  for (auto& t : ts) {
    t.join();
  }
  Ev(static_cast<std::uint64_t>(word.load()));
}

void RunProgram(const Params& p) {
  switch (p.prog) {
    case kPoolStrand: ProgPoolStrand(p); break;
    case kTimedWaits: ProgTimedWaits(p); break;
    case kCoroMutex: ProgCoroMutex(p); break;
    case kCombinators: ProgCombinators(p); break;
    case kRandomDevice: ProgRandomDevice(p); break;
    case kTryOnce: ProgTryOnce(p); break;
    default: ProgCondVar(p); break;
  }
}

// ------------------------------------------------------------------------------------------------- sessions
struct Config {
  std::uint32_t seed = 1, freq = 16, pick = 10, tick = 10;
};

struct Restore {
  bool on = false;
  std::uint64_t rand_count = 0;
  std::uint32_t injector = 0;
};

void Renumber(Trace& t) {
  std::vector<std::uint64_t> ids;
  t.resumes.clear();
  for (auto id : t.raw) {
    std::size_t k = 0;
    for (; k < ids.size(); ++k) {
      if (ids[k] == id) {
        break;
      }
    }
    if (k == ids.size()) {
      ids.push_back(id);
    }
    t.resumes.push_back(static_cast<std::uint32_t>(k));
  }
}

// One scheduler session: seeds the built-in PRNG and the injector the documented way, runs the programs one after the
// other in the root fiber.
Trace Session(const Config& cfg, const std::vector<Params>& programs, const Restore& restore) {
  Trace t;
  yaclib::SetSeed(cfg.seed);
  yaclib::SetFaultFrequency(cfg.freq);
  yaclib::SetFaultSleepTime(200);
  yaclib::SetAtomicFailFrequency(13);
  yaclib::fiber::SetFaultRandomListPick(cfg.pick);
  yaclib::fiber::SetFaultTickLength(cfg.tick);
  yaclib::fiber::SetInjectorState(0);
  const std::uint64_t rand0 = yaclib::fiber::GetFaultRandomCount();
  const std::uint64_t inj0 = yaclib::GetInjectedCount();
  t.rand0 = rand0;
  static yaclib::verif::Hooks hooks;
  hooks = yaclib::verif::Hooks{};
  hooks.on_resume = OnResume;  // the add-only trace callback; every choice stays with the built-in seeded PRNG
  gTrace = &t;
  // The lock-free code under the client programs compares heap pointers (Strand/callback list heads): with the system
  // allocator an address freed and handed out again can make a CAS succeed (ABA) in one run and fail in the other,
  // depending on the allocator's history in this process - a hidden input that is neither program, seed nor fault
  // configuration (known finding, DESIGN 5). Exploration parks freed blocks for the length of a session so that every
  // other hidden input stays detectable; profile "realheap" runs on the plain allocator.
  const bool park = std::string(sim::Profile()) != "realheap";
  if (park) {
    sim::QuarantineFrees(true);
  }
  {
    yaclib::fault::Scheduler sched;
    yaclib::fault::Scheduler::Set(&sched);
    yaclib::verif::gHooks = &hooks;
    yaclib_std::thread root{[&] {
      if (restore.on) {
        // Restore at the point that corresponds to the recorded one: inside the session's root fiber, whose start has
        // already consumed random draws. ForwardToFaultRandomCount(n) draws n more values (it forwards *by* n).
        const std::uint64_t here = yaclib::fiber::GetFaultRandomCount() - rand0;
        yaclib::fiber::ForwardToFaultRandomCount(restore.rand_count - here);
        yaclib::fiber::SetInjectorState(restore.injector);
      }
      for (auto& p : programs) {
        t.seg_resume.push_back(t.raw.size());
        t.seg_event.push_back(t.events.size());
        t.seg_rand.push_back(yaclib::fiber::GetFaultRandomCount());
        t.seg_inj.push_back(yaclib::fiber::GetInjectorState());
        RunProgram(p);
      }
      t.finished = true;
    }};
    yaclib::verif::gHooks = nullptr;
    if (!t.finished) {
      gTrace = nullptr;
      sim::Die("DEADLOCK", "a client program deadlocked under the built-in fiber scheduler (session did not finish)");
    }
    root.join();
    yaclib::fault::Scheduler::Set(nullptr);
  }
  gTrace = nullptr;
  if (park) {
    sim::QuarantineFrees(false);
  }
  t.rand_delta = yaclib::fiber::GetFaultRandomCount() - rand0;
  t.inj_delta = yaclib::GetInjectedCount() - inj0;
  Renumber(t);
  return t;
}

std::uint64_t HashTrace(const Trace& t) {
  std::uint64_t h = 1469598103934665603ULL;
  auto mix = [&](std::uint64_t v) {
    h = (h ^ v) * 1099511628211ULL;
    h ^= h >> 29;
  };
  for (auto r : t.resumes) {
    mix(r);
  }
  mix(0xFFFF);
  for (auto e : t.events) {
    mix(e);
  }
  mix(t.rand_delta);
  mix(t.inj_delta);
  return h;
}

class Case final : public sim::CaseBase {
 public:
  void Generate(sim::Gen& g) final {
    cfg.seed = 1 + g.Draw(100000);
    cfg.freq = kFreqs[g.Draw(4)];
    cfg.pick = kPicks[g.Draw(3)];
    cfg.tick = kTicks[g.Draw(2)];
    const std::uint32_t m = 1 + g.Draw(3);
    for (std::uint32_t i = 0; i < m; ++i) {
      Params p;
      p.prog = static_cast<int>(g.Draw(kProgCount));
      p.a = g.Draw(6);
      p.b = g.Draw(6);
      p.c = g.Draw(6);
      suite.push_back(p);
    }
    pick_j = g.Draw(m);
  }

  void Describe(sim::Json& j) const final {
    j.KV("seed", cfg.seed).KV("fault_frequency", cfg.freq).KV("random_list_pick", cfg.pick).KV("tick_ns", cfg.tick);
    j.Key("suite").Arr();
    for (auto& p : suite) {
      j.Obj().KV("program", kProgNames[p.prog]).KV("a", p.a).KV("b", p.b).KV("c", p.c).End();
    }
    j.EndArr();
    j.KV("restored_program", pick_j);
  }

  void Run() final {
    // nothing runs under the simulator's own explorer in this check
  }

  static std::string Diff(const Trace& x, const Trace& y) {
    char buf[256];
    std::size_t i = 0;
    while (i < x.resumes.size() && i < y.resumes.size() && x.resumes[i] == y.resumes[i]) {
      ++i;
    }
    std::size_t e = 0;
    while (e < x.events.size() && e < y.events.size() && x.events[e] == y.events[e]) {
      ++e;
    }
    std::snprintf(buf, sizeof buf, "resumes %zu vs %zu (first difference at %zu), events %zu vs %zu (first difference at %zu), random draws %llu vs %llu, injected yields %llu vs %llu",
                  x.resumes.size(), y.resumes.size(), i, x.events.size(), y.events.size(), e, (unsigned long long)x.rand_delta, (unsigned long long)y.rand_delta,
                  (unsigned long long)x.inj_delta, (unsigned long long)y.inj_delta);
    return buf;
  }

  static bool Same(const Trace& x, const Trace& y) {
    return x.resumes == y.resumes && x.events == y.events && x.rand_delta == y.rand_delta && x.inj_delta == y.inj_delta;
  }

  void Finish() final {
    // (a) the first program alone, twice in this process after re-seeding and resetting the injector
    const std::vector<Params> first{suite[0]};
    const Trace r1 = Session(cfg, first, Restore{});
    const Trace r2 = Session(cfg, first, Restore{});
    if (!Same(r1, r2)) {
      sim::Fail("RERUN_DIFFERS", "same program, seed and configuration, second run in the same process after SetSeed + SetInjectorState(0): %s", Diff(r1, r2).c_str());
      return;
    }
    // (b) the digest of this trace is what the determinism runs compare between fresh processes
    sim::Digest(HashTrace(r1));
    std::uint32_t fibers = 0;
    std::uint64_t switches = 0;
    for (std::size_t i = 0; i < r1.resumes.size(); ++i) {
      fibers = std::max(fibers, r1.resumes[i] + 1);
      switches += i > 0 && r1.resumes[i] != r1.resumes[i - 1] ? 1 : 0;
    }
    sim::OverrideStats(fibers, switches, r1.resumes.size() + r1.rand_delta);
    // a different seed should (almost always) give a different schedule: reach probe, not an oracle
    Config other = cfg;
    other.seed = cfg.seed + 1;
    const Trace r3 = Session(other, first, Restore{});
    if (!Same(r1, r3)) {
      SIM_PROBE("another_seed_gave_another_trace");
    }
    if (r1.inj_delta != 0) {
      SIM_PROBE("built_in_injector_yielded");
    }
    // (c) the suite in one session; then program j alone after restoring the recorded (random count, injector state)
    const Trace whole = Session(cfg, suite, Restore{});
    const std::size_t j = pick_j;
    Restore rs;
    rs.on = true;
    // GetFaultRandomCount is a process-lifetime counter that SetSeed does not reset: what a fresh process would have
    // recorded is the count relative to the start of the session
    rs.rand_count = whole.seg_rand[j] - whole.rand0;
    rs.injector = whole.seg_inj[j];
    const std::vector<Params> only{suite[j]};
    const Trace alone = Session(cfg, only, rs);
    // segment j of the suite run, renumbered from its own start; the suite's root fiber is running at the boundary, the
    // restored session has to resume its root first: drop that first resume
    Trace seg;
    const std::size_t rb = whole.seg_resume[j], re = j + 1 < suite.size() ? whole.seg_resume[j + 1] : whole.raw.size();
    const std::size_t eb = whole.seg_event[j], ee = j + 1 < suite.size() ? whole.seg_event[j + 1] : whole.events.size();
    std::uint64_t root_id = whole.raw.empty() ? 0 : whole.raw[0];
    seg.raw.push_back(root_id);
    seg.raw.insert(seg.raw.end(), whole.raw.begin() + static_cast<long>(rb), whole.raw.begin() + static_cast<long>(re));
    seg.events.assign(whole.events.begin() + static_cast<long>(eb), whole.events.begin() + static_cast<long>(ee));
    Renumber(seg);
    Trace al = alone;
    // the restored run ends with the root finishing and the session closing exactly like the last suite segment does; for
    // an inner segment the suite continues instead: compare the common prefix up to the program's last event-producing point
    const std::size_t n = std::min(seg.resumes.size(), al.resumes.size());
    bool same = seg.events == al.events;
    for (std::size_t i = 0; i < n && same; ++i) {
      same = seg.resumes[i] == al.resumes[i];
    }
    if (j + 1 == suite.size()) {
      same = same && seg.resumes.size() == al.resumes.size();
    } else {
      same = same && al.resumes.size() <= seg.resumes.size() + 1 && al.resumes.size() + 1 >= seg.resumes.size();
    }
    if (!same) {
      seg.rand_delta = 0;
      al.rand_delta = 0;
      sim::Fail("RESTORE_DIFFERS", "program %zu of the suite vs the same program alone after SetSeed + ForwardToFaultRandomCount(%llu) + SetInjectorState(%u): %s", j,
                (unsigned long long)rs.rand_count, rs.injector, Diff(seg, al).c_str());
      return;
    }
    SIM_PROBE("suite_segment_restored");
    char name[64];
    std::snprintf(name, sizeof name, "cell_%s", kProgNames[suite[0].prog]);
    sim::CountDyn(name);
    std::snprintf(name, sizeof name, "cell_freq%u_pick%u_tick%u", cfg.freq, cfg.pick, cfg.tick);
    sim::CountDyn(name);
    // leave the simulator's defaults behind
    yaclib::fiber::SetFaultTickLength(10);
    yaclib::SetFaultSleepTime(64);
  }

  Config cfg;
  std::vector<Params> suite;
  std::uint32_t pick_j = 0;
};

}  // namespace

SIM_HARNESS("C17", "c17_determinism", Case, "RERUN_DIFFERS RESTORE_DIFFERS DEADLOCK CRASH:* (cross-process differences are reported by the check driver as PROCESS_DIFFERS)")
