// C01 — A fulfilled Promise is delivered to its Future exactly once, intact (DESIGN §3 C01).
#include <sim/util.hpp>

#include <yaclib/async/connect.hpp>
#include <yaclib/async/contract.hpp>
#include <yaclib/async/future.hpp>
#include <yaclib/async/promise.hpp>
#include <yaclib/async/wait.hpp>
#include <yaclib/async/wait_for.hpp>
#include <yaclib/async/wait_until.hpp>
#include <yaclib/coro/await.hpp>
#include <yaclib/coro/future.hpp>
#include <yaclib/coro/on.hpp>
#include <yaclib/exe/inline.hpp>
#include <yaclib/exe/manual.hpp>
#include <yaclib/runtime/fair_thread_pool.hpp>

#include <chrono>
#include <utility>
#include <yaclib_std/chrono>
#include <yaclib_std/thread>

namespace {

using sim::OKind;
using sim::Outcome;
using sim::SimError;
using sim::Tracked;

enum Producer : int { kSetValue, kSetError, kSetException, kDropPromise, kSetThrowsThenDrop, kProducerCount };
enum Consumer : int {
  kGet,
  kThenInline,
  kThenExec,
  kDetachPlain,
  kDetachInline,
  kDetachExec,
  kPollGet,
  kWaitTouch,
  kConnect,
  kDropFuture,
  kWaitForGet,        // timed wait racing the fulfilment, then Get
  kWaitUntilThen,     // timed wait racing the fulfilment, then a continuation
  kConsumerCount
};
enum Exec : int { kExInline, kExManual, kExPool, kExecCount };

const char* kProducerNames[] = {"Set(value)", "Set(error)", "Set(exception)", "drop promise",
                                "Set(v) throws while constructing the value, then the (still unset) promise is dropped"};
const char* kConsumerNames[] = {"Get&&",        "ThenInline",  "Then(e)",  "Detach()", "DetachInline(f)",
                                "Detach(e,f)",  "poll Get&",   "Wait+Touch", "Connect",  "drop future",
                                "WaitFor+Get",  "WaitUntil+ThenInline"};
const char* kExecNames[] = {"inline", "manual", "pool1"};

// Continuation functor with a Tracked capture: counts invocations, records what it saw, where and when.
struct Seen {
  int calls = 0;
  Outcome got;
  std::uint64_t at = 0;
  int exec = -1;
  int functor_alive_at_call = 0;
};

class Case final : public sim::CaseBase {
 public:
  void Generate(sim::Gen& g) final {
    consumer = static_cast<int>(g.Draw(kConsumerCount));
    producer = static_cast<int>(g.Draw(kProducerCount));
    is_void = g.Draw(4) == 3;
    move_only = !is_void && g.Draw(4) == 0;  // a move-only payload: Result<V, E> cannot be copied
    exec = static_cast<int>(g.Draw(kExecCount));
    tail_get = g.Flip();
    ready_samples = static_cast<int>(g.Draw(3));
    cons_delay = static_cast<int>(g.Draw(4));
    prod_delay = static_cast<int>(g.Draw(4));
    static const std::uint32_t kNs[] = {0, 40, 150, 500, 2000};
    timeout_ns = kNs[g.Draw(5)];
    prod_sleep_ns = kNs[g.Draw(5)];
    id = 1 + g.Noise(1000);
    consumer_first = g.Flip();
    prod_coroutine = g.Draw(3) == 2;
  }

  void Describe(sim::Json& j) const final {
    j.KV("consumer", kConsumerNames[consumer]);
    j.KV("producer", kProducerNames[producer]);
    j.KV("produced_by", prod_coroutine ? "a coroutine (co_return / throw / stopped executor): completion goes through final_suspend" : "Promise");
    j.KV("value_type", is_void ? "void" : move_only ? "move-only Tracked" : "Tracked");
    if (consumer == kThenExec || consumer == kDetachExec) {
      j.KV("executor", kExecNames[exec]);
    }
    if (consumer == kThenInline || consumer == kThenExec) {
      j.KV("tail", tail_get ? "Get" : "Detach");
    }
    if (consumer == kWaitForGet || consumer == kWaitUntilThen) {
      j.KV("timeout_ns", timeout_ns);
    }
    j.KV("producer_sleep_ns", prod_sleep_ns);
    j.KV("ready_samples", ready_samples).KV("consumer_delay", cons_delay).KV("producer_delay", prod_delay).KV("id", id).KV("consumer_spawned_first", consumer_first);
  }

  Outcome Model() const {
    switch (producer) {
      case kSetValue:
        return {OKind::Value, is_void ? 0U : id};
      case kSetError:
        return {OKind::Error, id};
      case kSetException:
        return {OKind::Exception, id};
      default:
        return {OKind::Stopped, 0};
    }
  }

  void Run() final {
    if (is_void) {
      RunT<void>();
    } else {
      if (move_only) {
        SIM_PROBE("move_only_payload");
        RunT<sim::TrackedMO>();
      } else {
        RunT<Tracked>();
      }
    }
  }

  // The producer as a coroutine: it waits for a gate the producer thread opens, then completes by co_return / throw /
  // being refused by a stopped executor. Its completion reaches the consumer through final_suspend (Next / symmetric
  // transfer) instead of Promise::Set (Here).
  template <typename V>
  static yaclib::Future<V, SimError> CoProducer(Case* c, yaclib::Future<void, SimError> gate) {
    co_await yaclib::Await(gate);
    sim::RaceWrite(&c->payload_cell, sizeof c->payload_cell);
    c->payload_cell = c->id;
    c->set_invoke = sim::Seq();
    switch (c->producer) {
      case kSetValue:
        if constexpr (std::is_void_v<V>) {
          co_return {};
        } else {
          co_return V{c->id};
        }
      case kSetError:
        co_return SimError{c->id};
      case kSetException:
        throw sim::TaggedEx{c->id};
      default:
        SIM_FAULT("producer_coroutine_stopped");
        co_await yaclib::On(yaclib::MakeInline(yaclib::StopTag{}));
        sim::Fail("HARNESS", "a coroutine ran past On(stopped executor)");
        co_return yaclib::StopTag{};
    }
  }

  void OpenGate(yaclib::Promise<void, SimError> gate) {
    for (int i = 0; i < prod_delay; ++i) {
      sim::Yield();
    }
    if (prod_sleep_ns != 0) {
      sim::SleepNs(prod_sleep_ns);
    }
    std::move(gate).Set();
    set_return = sim::Seq();
  }

  template <typename V>
  void Produce(yaclib::Promise<V, SimError> p) {
    for (int i = 0; i < prod_delay; ++i) {
      sim::Yield();
    }
    if (prod_sleep_ns != 0) {
      sim::SleepNs(prod_sleep_ns);
    }
    sim::RaceWrite(&payload_cell, sizeof payload_cell);
    payload_cell = id;  // plain write that must be visible to whoever observes completion (C04 race build)
    set_invoke = sim::Seq();
    switch (producer) {
      case kSetValue:
        if constexpr (std::is_void_v<V>) {
          std::move(p).Set();
        } else {
          std::move(p).Set(V{id});
        }
        break;
      case kSetError:
        std::move(p).Set(SimError{id});
        break;
      case kSetException:
        std::move(p).Set(sim::MakeEx(id));
        break;
      case kSetThrowsThenDrop:
        if constexpr (!std::is_void_v<V>) {
          // fault: constructing the value in the shared state throws; Set must leave the promise unset and valid
          SIM_FAULT("value_construction_throws_in_set");
          try {
            std::move(p).Set(sim::Bomb{id});
            sim::Fail("HARNESS", "Set(Bomb) did not throw");
          } catch (const sim::TaggedEx&) {
          }
          if (!p.Valid()) {
            sim::Fail("PROMISE_LOST_BY_FAILED_SET", "Set threw while constructing the value, but the promise is no longer valid: nothing can complete the future any more");
          }
        }
        [[fallthrough]];
      default: {
        SIM_FAULT("promise_dropped");
        auto dead = std::move(p);
        (void)dead;
      } break;
    }
    set_return = sim::Seq();
  }

  template <typename V>
  auto MakeCont(Seen& seen, const char* who) {
    return [this, &seen, who, cap = Tracked{7777}](yaclib::Result<V, SimError>&& r) mutable {
      ++seen.calls;
      seen.at = sim::Seq();
      seen.exec = sim::CurrentExec();
      seen.functor_alive_at_call = cap.Read(who) == 7777 ? 1 : 0;
      seen.got = sim::Observe(r, who);
      sim::RaceRead(&payload_cell, sizeof payload_cell);
      seen_cell = payload_cell;
    };
  }

  template <typename V>
  void Consume(yaclib::Future<V, SimError> f, sim::Proxy* e) {
    using Res = yaclib::Result<V, SimError>;
    for (int i = 0; i < cons_delay; ++i) {
      sim::Yield();
    }
    // the consumer thread itself may poll Ready() (one thread per Future object)
    bool was_ready = false;
    for (int i = 0; i < ready_samples; ++i) {
      const bool ready = f.Ready();
      if (was_ready && !ready) {
        sim::Fail("READY_WENT_BACK", "Ready() returned true and later false");
      }
      if (ready) {
        was_ready = true;
        SIM_PROBE("ready_seen_true_before_consume");
        const Outcome o = sim::Observe(std::as_const(f).Touch(), "Touch after Ready()==true");
        if (o != Model()) {
          sim::Fail("READY_BUT_WRONG", "Ready()==true but Touch() shows %s, producer did %s", o.Str().c_str(), Model().Str().c_str());
        }
        if (set_invoke == 0) {
          sim::Fail("EARLY", "Ready()==true before the producer began to fulfil");
        }
        sim::RaceRead(&payload_cell, sizeof payload_cell);
        ready_cell_ok = payload_cell == id;
      }
      sim::Yield();
    }
    consume_invoke = sim::Seq();
    switch (consumer) {
      case kGet: {
        Res r = std::move(f).Get();
        sim::ReuseDeadFrames();
        direct.calls = 1;
        direct.at = sim::Seq();
        direct.got = sim::Observe(r, "Get&&");
        sim::RaceRead(&payload_cell, sizeof payload_cell);
        seen_cell = payload_cell;
      } break;
      case kThenInline: {
        auto f2 = std::move(f).ThenInline(MakeCont<V>(cont, "ThenInline continuation"));
        Tail(std::move(f2));
      } break;
      case kThenExec: {
        auto f2 = std::move(f).Then(*e, MakeCont<V>(cont, "Then(e) continuation"));
        Tail(std::move(f2));
      } break;
      case kDetachPlain:
        std::move(f).Detach();
        break;
      case kDetachInline:
        std::move(f).DetachInline(MakeCont<V>(cont, "DetachInline continuation"));
        break;
      case kDetachExec:
        std::move(f).Detach(*e, MakeCont<V>(cont, "Detach(e) continuation"));
        break;
      case kPollGet: {
        const Res* r = nullptr;
        while ((r = std::as_const(f).Get()) == nullptr) {
          sim::Yield();
        }
        direct.calls = 1;
        direct.at = sim::Seq();
        direct.got = sim::Observe(*r, "Get const&");
        sim::RaceRead(&payload_cell, sizeof payload_cell);
        seen_cell = payload_cell;
        const Res* again = std::as_const(f).Get();
        sim::ReuseDeadFrames();
        if (again != r) {
          sim::Fail("READY_WENT_BACK", "Get() const& returned a result and then a different pointer");
        }
      } break;
      case kWaitTouch: {
        yaclib::Wait(f);
        sim::ReuseDeadFrames();
        if (!f.Ready()) {
          sim::Fail("WAIT_NOT_READY", "Wait returned but Ready() is false");
        }
        sim::RaceRead(&payload_cell, sizeof payload_cell);
        seen_cell = payload_cell;
        const Outcome a = sim::Observe(std::as_const(f).Touch(), "Touch const& after Wait");
        Res r = std::move(f).Touch();
        direct.calls = 1;
        direct.at = sim::Seq();
        direct.got = sim::Observe(r, "Touch&& after Wait");
        if (a != direct.got) {
          sim::Fail("UNSTABLE", "Touch const& saw %s, Touch&& saw %s", a.Str().c_str(), direct.got.Str().c_str());
        }
      } break;
      case kConnect: {
        auto [f2, p2] = yaclib::MakeContract<V, SimError>();
        yaclib::Connect(std::move(f), std::move(p2));
        Res r = std::move(f2).Get();
        direct.calls = 1;
        direct.at = sim::Seq();
        direct.got = sim::Observe(r, "Get of the connected contract");
        sim::RaceRead(&payload_cell, sizeof payload_cell);
        seen_cell = payload_cell;
      } break;
      case kWaitForGet:
      case kWaitUntilThen: {
        using namespace std::chrono;
        const std::uint64_t t0 = sim::NowNs();
        const bool ok = consumer == kWaitForGet ? yaclib::WaitFor(nanoseconds{timeout_ns}, f)
                                                : yaclib::WaitUntil(yaclib_std::chrono::steady_clock::now() + nanoseconds{timeout_ns}, f);
        if (ok) {
          if (!f.Ready()) {
            sim::Fail("WAIT_NOT_READY", "timed wait returned true but Ready() is false");
          }
        } else {
          SIM_FAULT("deadline_fired");
          if (sim::NowNs() < t0 + timeout_ns) {
            sim::Fail("FALSE_BEFORE_DEADLINE", "timed wait returned false before its deadline");
          }
        }
        // whatever the timed wait said, the completion must still be delivered exactly once afterwards
        if (consumer == kWaitForGet) {
          Res r = std::move(f).Get();
          direct.calls = 1;
          direct.at = sim::Seq();
          direct.got = sim::Observe(r, "Get after a timed wait");
          sim::RaceRead(&payload_cell, sizeof payload_cell);
          seen_cell = payload_cell;
        } else {
          auto f2 = std::move(f).ThenInline(MakeCont<V>(cont, "continuation attached after a timed wait"));
          auto r = std::move(f2).Get();
          tail_state = static_cast<int>(r.State());
        }
      } break;
      default: {
        SIM_FAULT("future_dropped");
        auto dead = std::move(f);
        (void)dead;
      } break;
    }
    consume_return = sim::Seq();
  }

  template <typename F2>
  void Tail(F2 f2) {
    if (tail_get) {
      if constexpr (std::is_same_v<F2, yaclib::FutureOn<void, SimError>>) {
        if (consumer == kThenExec && exec == kExManual) {
          // manual executor is drained by the coordinator after both threads were joined: keep the future for it
          tail_future_on = std::move(f2);
          return;
        }
      }
      auto r = std::move(f2).Get();
      tail_state = static_cast<int>(r.State());
    } else {
      std::move(f2).Detach();
    }
  }

  template <typename V>
  void RunT() {
    yaclib::FairThreadPool* pool = nullptr;
    yaclib::IExecutorPtr manual;
    sim::Proxy proxy{&yaclib::MakeInline(), 1};
    const bool uses_exec = consumer == kThenExec || consumer == kDetachExec;
    if (uses_exec) {
      if (exec == kExManual) {
        manual = yaclib::MakeManual();
        proxy.SetTarget(manual.Get());
      } else if (exec == kExPool) {
        pool = new yaclib::FairThreadPool{1};
        proxy.SetTarget(pool);
      }
    }
    {
      auto [f, p] = yaclib::MakeContract<V, SimError>();
      auto [gate_f, gate_p] = yaclib::MakeContract<void, SimError>();
      if (prod_coroutine) {
        SIM_PROBE("producer_is_a_coroutine");
        f = CoProducer<V>(this, std::move(gate_f));
        // the contract's own promise is not used in this mode; Detach-like drop of an unused pair
        auto unused_future_side = std::move(p);
        (void)unused_future_side;
      }
      auto produce = [this, pp = std::move(p), gp = std::move(gate_p)]() mutable {
        if (prod_coroutine) {
          OpenGate(std::move(gp));
        } else {
          Produce<V>(std::move(pp));
        }
      };
      auto consume = [this, ff = std::move(f), &proxy]() mutable {
        Consume<V>(std::move(ff), &proxy);
      };
      yaclib_std::thread cons, prod;
      if (consumer_first) {
        cons = yaclib_std::thread{std::move(consume)};
        prod = yaclib_std::thread{std::move(produce)};
      } else {
        prod = yaclib_std::thread{std::move(produce)};
        cons = yaclib_std::thread{std::move(consume)};
      }
      prod.join();
      cons.join();
    }
    if (manual) {
      (void)static_cast<yaclib::ManualExecutor&>(*manual).Drain();
      if (tail_future_on.Valid()) {
        auto r = std::move(tail_future_on).Get();
        tail_state = static_cast<int>(r.State());
      }
    }
    if (pool != nullptr) {
      proxy.NoteStopInvoked();
      pool->SoftStop();
      pool->Wait();
      delete pool;
    }
    manual = nullptr;
    if (uses_exec) {
      proxy.CheckQuiescent("C01");
      exec_submitted = static_cast<int>(proxy.submitted());
    }
  }

  void Finish() final {
    const Outcome model = Model();
    const bool has_cont = consumer == kThenInline || consumer == kThenExec || consumer == kDetachInline || consumer == kDetachExec || consumer == kWaitUntilThen;
    const bool has_direct = consumer == kGet || consumer == kPollGet || consumer == kWaitTouch || consumer == kConnect || consumer == kWaitForGet;
    if (has_cont) {
      SIM_CHECK(cont.calls >= 1, "LOST", "%s on %s: continuation never ran", kConsumerNames[consumer], kProducerNames[producer]);
      SIM_CHECK(cont.calls <= 1, "DUPLICATE", "%s: continuation ran %d times", kConsumerNames[consumer], cont.calls);
      if (cont.calls == 1) {
        SIM_CHECK(cont.got == model, "WRONG_RESULT", "%s continuation saw %s, producer did %s", kConsumerNames[consumer],
                  cont.got.Str().c_str(), model.Str().c_str());
        SIM_CHECK(cont.at > set_invoke && set_invoke != 0, "EARLY", "continuation ran (seq %llu) before the producer began to fulfil (seq %llu)",
                  (unsigned long long)cont.at, (unsigned long long)set_invoke);
        SIM_CHECK(cont.functor_alive_at_call == 1, "FUNCTOR_DEAD", "continuation functor capture was not intact when invoked");
        if (consumer == kThenExec || consumer == kDetachExec) {
          SIM_CHECK(cont.exec == 1, "WRONG_EXECUTOR", "continuation attached with an executor ran outside of it (tag %d)", cont.exec);
          SIM_CHECK(exec_submitted == 1, "WRONG_SUBMIT_COUNT", "executor saw %d submissions for one step", exec_submitted);
        }
        SIM_CHECK(seen_cell == id, "STALE_PAYLOAD", "continuation read payload cell %u, producer wrote %u before fulfilling", seen_cell, id);
      }
    } else {
      SIM_CHECK(cont.calls == 0, "DUPLICATE", "a continuation ran although none was attached");
    }
    if (has_direct) {
      SIM_CHECK(direct.calls == 1, "LOST", "%s never returned a result", kConsumerNames[consumer]);
      SIM_CHECK(direct.got == model, "WRONG_RESULT", "%s returned %s, producer did %s", kConsumerNames[consumer],
                direct.got.Str().c_str(), model.Str().c_str());
      SIM_CHECK(direct.at > set_invoke && set_invoke != 0, "EARLY", "%s returned before the producer began to fulfil", kConsumerNames[consumer]);
      SIM_CHECK(seen_cell == id, "STALE_PAYLOAD", "consumer read payload cell %u after observing completion, producer wrote %u", seen_cell, id);
    }
    if ((consumer == kThenInline || consumer == kThenExec) && tail_get) {
      SIM_CHECK(tail_state == static_cast<int>(yaclib::ResultState::Value), "WRONG_RESULT", "future returned by Then* ended in state %d", tail_state);
    }
    SIM_CHECK(ready_cell_ok, "STALE_PAYLOAD", "Ready()==true but the producer's earlier plain write was not visible");
    if (set_invoke < consume_return && consume_invoke < set_return) {
      SIM_PROBE("produce_and_consume_overlapped");
    }
    if (consume_return < set_invoke) {
      SIM_PROBE("consumer_first");
    }
    if (set_return < consume_invoke) {
      SIM_PROBE("producer_first");
    }
  }

  bool prod_coroutine = false;
  int consumer = 0, producer = 0, exec = 0, ready_samples = 0, cons_delay = 0, prod_delay = 0;
  bool move_only = false;
  bool is_void = false, tail_get = false, consumer_first = false;
  std::uint32_t id = 1, timeout_ns = 0, prod_sleep_ns = 0;

  Seen cont, direct;
  std::uint64_t set_invoke = 0, set_return = 0, consume_invoke = 0, consume_return = 0;
  std::uint32_t payload_cell = 0, seen_cell = 0;
  bool ready_cell_ok = true;
  int tail_state = -1;
  int exec_submitted = 0;
  yaclib::FutureOn<void, SimError> tail_future_on;
};

}  // namespace

SIM_HARNESS("C01", "c01_handoff", Case,
            "PROMISE_LOST_BY_FAILED_SET LOST DUPLICATE WRONG_RESULT EARLY TORN MOVED_FROM_READ READY_BUT_WRONG READY_WENT_BACK STALE_PAYLOAD WRONG_EXECUTOR "
            "DEADLOCK NO_PROGRESS LEAK LEAK_OBJECT DOUBLE_DESTROY USE_AFTER_DESTROY JOB_LOST CRASH:*")
