// C06 — SharedFuture: every observer sees the one value once, never before it exists (DESIGN §3 C06).
#include <sim/util.hpp>

#include <yaclib/async/connect.hpp>
#include <yaclib/async/contract.hpp>
#include <yaclib/async/run.hpp>
#include <yaclib/async/make.hpp>
#include <yaclib/async/share.hpp>
#include <yaclib/async/shared_contract.hpp>
#include <yaclib/async/shared_future.hpp>
#include <yaclib/async/split.hpp>
#include <yaclib/async/wait.hpp>
#include <yaclib/async/when_all.hpp>
#include <yaclib/async/when_any.hpp>
#include <yaclib/coro/await.hpp>
#include <yaclib/coro/await_on.hpp>
#include <yaclib/coro/await_sticky.hpp>
#include <yaclib/coro/future.hpp>
#include <yaclib/coro/on.hpp>
#include <yaclib/coro/shared_future.hpp>
#include <yaclib/exe/inline.hpp>
#include <yaclib/runtime/fair_thread_pool.hpp>

#include <deque>
#include <utility>
#include <vector>
#include <yaclib_std/thread>

namespace {

using sim::OKind;
using sim::Outcome;
using E = sim::SimError;
using T = sim::Tracked;
using SF = yaclib::SharedFuture<T, E>;

enum Op : int {
  kThenInline,
  kThenExec,
  kSubscribeInline,
  kSubscribeExec,
  kShareGet,
  kShareExecThen,
  kConnectUnique,
  kConnectShared,
  kWaitTouch,
  kGetConst,
  kReadyTouch,
  kCopyUse,
  kWhenAllCopies,
  kWhenAnyCopies,
  kCoAwait,       // a coroutine co_awaits the copy (value by const&, failure rethrown)
  kCoAwaitAwait,  // a coroutine co_awaits Await(copy), then reads the copy, which must be ready
  kCoAwaitSticky,  // a coroutine running in e co_awaits AwaitSticky(copy): resumed in e, the copy is ready
  kCoAwaitOn,      // a coroutine co_awaits AwaitOn(e, copy): resumed in e, the copy is ready
  kShareExecInherit,  // Share(copy, e).Then(f): the unique FutureOn carries e, a continuation without an executor runs in e
  kThenInherit,       // SharedFutureOn::Then(f): runs on the executor the shared state carries (degrades to Then(e) otherwise)
  kSubscribeInherit,  // SharedFutureOn::Subscribe(f)
  kWhenAllOwn,  // WhenAll<None>(std::move(own copy), other ready shared future): consumes the observer's copy, always last
  kWhenAnyOwn,  // WhenAny(std::move(own copy), own copy's duplicate): consumes the observer's copy, always last
  kWhenAnyIterAux,  // WhenAny(begin, 2) over {copy, copy of a second shared state that is fulfilled later}: iterator form, two pending shared inputs
  kWhenAllIterAux,  // WhenAll<None>(begin, 2) over the same pair
  kReturnedByStep,  // a step of a unique chain returns the copy: unwrapping must copy the value out of the shared state, never move it
  kTouchMove,   // if Ready(): std::move(own).Touch() (moves the value out only if provably last); always last
  kGetMove,     // consumes the observer's copy: always last
  kDropCopy,    // destroys the observer's copy: always last
  kOpCount
};
const char* kOpNames[] = {"ThenInline", "Then(e)", "SubscribeInline", "Subscribe(e)", "Share().Get", "Share(e).ThenInline", "Connect(unique promise)",
                          "Connect(shared promise)", "Wait+Touch", "Get const&", "Ready()+Touch", "copy, use the copy, destroy it", "WhenAll(copy, copy)",
                          "WhenAny(copy, copy)", "co_await copy", "co_await Await(copy)", "co_await AwaitSticky(copy)", "co_await AwaitOn(e, copy)", "Share(copy, e).Then(f)", "SharedFutureOn::Then(f)", "SharedFutureOn::Subscribe(f)", "WhenAll(move(own), other)", "WhenAny(move(own), copy)", "WhenAny(begin,2){copy, later}", "WhenAll<None>(begin,2){copy, later}", "unique.ThenInline([copy]{ return copy; }).Get", "Ready() then Touch&&", "Get&&", "drop own copy"};
enum Producer : int { kSetValue, kSetError, kSetException, kDropPromise, kProducerCount };
const char* kProducerNames[] = {"Set(value)", "Set(error)", "Set(exception)", "drop promise"};

struct Observation {
  int observer;
  int op;
  Outcome got;
  std::uint64_t at;
  int exec;
};

struct Attached {
  int observer;
  int op;
  int calls = 0;
  int flavour = 0;  // callback parameter: 0 const Result&, 1 const T& (runs only on success), 2 T by value (a copy per observer)
};
const char* kFlavourNames[] = {"", " [f(const T&)]", " [f(T)]"};

class Case final : public sim::CaseBase {
 public:
  void Generate(sim::Gen& g) final {
    producer = static_cast<int>(g.Draw(kProducerCount));
    observers = 2 + static_cast<int>(g.Draw(3));
    promise_first = g.Flip();
    split_unique = !promise_first && g.Draw(3) == 2;
    // 1: RunShared(e, f) 2: AsyncSharedContract(e, f(promise)): the executor's job is the producer, the root is a SharedFutureOn
    run_kind = (!promise_first && !split_unique && g.Draw(3) == 2) ? 1 + static_cast<int>(g.Draw(4)) : 0;
    // the producer, before it fulfils its SharedPromise, connects other promises to it (Connect(primary, subsumed)): their futures
    // must then show the same result. Bits: 1 a unique promise, 2 a shared promise.
    subsumed = (!split_unique && run_kind == 0) ? static_cast<int>(g.Draw(4)) : 0;
    // Split(Future&&) of a future that is already fulfilled (Connect's ready path)
    split_after_set = split_unique && g.Flip();
    by_reference = g.Draw(4) == 3;
    exec_pool = g.Flip();
    pool_workers = 1 + g.Draw(2);
    prod_delay = g.Draw(5);
    id = 1 + g.Noise(1000);
    const std::uint32_t max_ops = sim::Thorough() ? 8 : 4;
    // the SharedFutureOn returned by RunShared/AsyncSharedContract stays the only handle of the shared state and branches: several
    // executor-inheriting continuations are attached to it one after another, before or after the job has finished
    solo_on = (run_kind == 1 || run_kind == 2) && g.Draw(3) == 0;
    if (solo_on) {
      observers = 1;
      by_reference = true;
    }
    for (int o = 0; o < observers; ++o) {
      std::vector<int> ops;
      const std::uint32_t n = (solo_on ? 2 : 1) + g.Draw(max_ops);
      for (std::uint32_t k = 0; k < n; ++k) {
        int op = static_cast<int>(g.Draw(kOpCount));
        if (solo_on) {
          op = (op & 1) != 0 ? kThenInherit : kSubscribeInherit;
        }
        if ((op == kWhenAnyIterAux || op == kWhenAllIterAux) && (run_kind == 1 || run_kind == 2)) {
          op = kWhenAllCopies;  // no producer thread to order the second shared state after the first one
        }
        const bool consumes = op == kGetMove || op == kDropCopy || op == kWhenAllOwn || op == kWhenAnyOwn || op == kTouchMove;
        if (by_reference && consumes) {
          op = kGetConst;
        }
        const bool attaches = op == kThenInline || op == kThenExec || op == kSubscribeInline || op == kSubscribeExec || op == kThenInherit || op == kSubscribeInherit ||
                              op == kShareExecInherit;
        ops.push_back(op + 100 * (attaches ? static_cast<int>(g.Draw(3)) : 0));
        if (!by_reference && consumes) {
          break;
        }
      }
      programs.push_back(ops);
      delays.push_back(g.Draw(4));
    }
    root_drops_early = g.Flip();
  }

  void Describe(sim::Json& j) const final {
    j.KV("producer", kProducerNames[producer]).KV("created_by", promise_first ? "MakeSharedPromise + Split(promise)" : (split_unique ? "MakeContract + Split(Future&&)" : (run_kind == 1 ? "RunShared(e, f)" : (run_kind == 2 ? "AsyncSharedContract(e, f)" : (run_kind == 3 ? "coroutine returning SharedFuture (co_return / throw / stopped executor)" : (run_kind == 4 ? "Split(coroutine returning Future): the shared state is the coroutine's callback, reached through final_suspend" : "MakeSharedContract"))))));
    if (solo_on) {
      j.KV("handles", "the SharedFutureOn returned by the creator is the only handle; every continuation is attached to it");
    }
    if (subsumed != 0) {
      j.KV("producer_connects_first", subsumed == 1 ? "a unique promise" : (subsumed == 2 ? "a shared promise" : "a unique and a shared promise"));
    }
    if (split_after_set) {
      j.KV("split", "after the unique future was fulfilled");
    }
    j.KV("observers_use", by_reference ? "one SharedFuture by const reference" : "their own copies");
    j.KV("executor", exec_pool ? "proxy(pool)" : "proxy(inline)").KV("pool_workers", pool_workers).KV("producer_delay", prod_delay);
    j.Key("observers").Arr();
    for (std::size_t o = 0; o < programs.size(); ++o) {
      j.Obj().KV("delay", delays[o]).Key("ops").Arr();
      for (int code : programs[o]) {
        j.Str(std::string(kOpNames[code % 100]) + kFlavourNames[code / 100]);
      }
      j.EndArr().End();
    }
    j.EndArr();
    j.KV("root_drops_its_handle_before_fulfilment", root_drops_early);
  }

  Outcome Model() const {
    switch (producer) {
      case kSetValue: return {OKind::Value, id};
      case kSetError: return {OKind::Error, id};
      case kSetException: return {OKind::Exception, id};
      default: return {OKind::Stopped, 0};
    }
  }

  void Saw(int observer, int op, const Outcome& o) {
    seen.push_back(Observation{observer, op, o, sim::Seq(), sim::CurrentExec()});
    sim::RaceRead(&cell, sizeof cell);
    if (cell != id) {
      sim::Fail("STALE_PAYLOAD", "observer %d (%s) observed the result, but the producer's earlier plain write is not visible", observer, kOpNames[op]);
    }
  }

  std::size_t NewAttached(int observer, int op, int flavour = 0) {
    attached.push_back(Attached{observer, op, 0, flavour});
    return attached.size() - 1;
  }

  // hands fn a callback of the generated parameter flavour
  template <typename Fn>
  void WithCallback(int observer, int op, int flavour, Fn&& fn) {
    const std::size_t slot = NewAttached(observer, op, flavour);
    if (flavour == 1) {
      fn([this, observer, op, slot, cap = T{4242}](const T& v) {
        (void)cap.Read("callback capture");
        ++attached[slot].calls;
        Saw(observer, op, Outcome{OKind::Value, v.Read("value passed to a shared future's callback by const&")});
      });
    } else if (flavour == 2) {
      fn([this, observer, op, slot, cap = T{4242}](T v) {
        (void)cap.Read("callback capture");
        ++attached[slot].calls;
        Saw(observer, op, Outcome{OKind::Value, v.Read("value passed to a shared future's callback by value")});
      });
    } else {
      fn([this, observer, op, slot, cap = T{4242}](const yaclib::Result<T, E>& r) {
        (void)cap.Read("callback capture");
        ++attached[slot].calls;
        Saw(observer, op, sim::Observe(r, kOpNames[op]));
      });
    }
  }

  auto Callback(int observer, int op) {
    const std::size_t slot = NewAttached(observer, op);
    return [this, observer, op, slot, cap = T{4242}](const yaclib::Result<T, E>& r) {
      (void)cap.Read("callback capture");
      ++attached[slot].calls;
      Saw(observer, op, sim::Observe(r, kOpNames[op]));
    };
  }

  // the shared state is a coroutine's: it waits for the gate the producer thread opens, then completes through final_suspend
  static yaclib::Future<T, E> CoUnique(Case* c, yaclib::Future<void, E> gate) {
    co_await yaclib::Await(gate);
    sim::RaceWrite(&c->cell, sizeof c->cell);
    c->cell = c->id;
    c->set_invoke = sim::Seq();
    switch (c->producer) {
      case kSetValue: co_return T{c->id};
      case kSetError: co_return E{c->id};
      case kSetException: throw sim::TaggedEx{c->id};
      default:
        SIM_FAULT("producer_coroutine_stopped");
        co_await yaclib::On(yaclib::MakeInline(yaclib::StopTag{}));
        co_return yaclib::StopTag{};
    }
  }

  static SF CoShared(Case* c, yaclib::Future<void, E> gate) {
    co_await yaclib::Await(gate);
    sim::RaceWrite(&c->cell, sizeof c->cell);
    c->cell = c->id;
    c->set_invoke = sim::Seq();
    switch (c->producer) {
      case kSetValue: co_return T{c->id};
      case kSetError: co_return E{c->id};
      case kSetException: throw sim::TaggedEx{c->id};
      default:
        SIM_FAULT("producer_coroutine_stopped");
        co_await yaclib::On(yaclib::MakeInline(yaclib::StopTag{}));
        co_return yaclib::StopTag{};
    }
  }

  static yaclib::Future<> AwaitCopy(Case* c, int o, std::size_t slot, SF copy) {
    Outcome got;
    try {
      const T& v = co_await copy;
      got = {OKind::Value, v.Read("value of co_await shared future")};
    } catch (...) {
      got = sim::OutcomeOfEx(std::current_exception());
    }
    ++c->attached[slot].calls;
    c->Saw(o, kCoAwait, got);
    co_return {};
  }

  static yaclib::Future<> AwaitViaAwait(Case* c, int o, std::size_t slot, SF copy) {
    co_await yaclib::Await(copy);
    ++c->attached[slot].calls;
    if (!copy.Valid() || !copy.Ready()) {
      sim::Fail("WAIT_NOT_READY", "co_await Await(copy) resumed but the shared future is not valid and ready");
      co_return {};
    }
    c->Saw(o, kCoAwaitAwait, sim::Observe(copy.Touch(), "Touch after co_await Await(copy)"));
    co_return {};
  }

  static yaclib::Future<> AwaitStickyOrOn(Case* c, int o, std::size_t slot, SF copy, int op) {
    co_await yaclib::On(*c->proxy);
    if (op == kCoAwaitOn) {
      co_await yaclib::AwaitOn(*c->proxy, copy);
    } else {
      co_await yaclib::AwaitSticky(copy);
    }
    ++c->attached[slot].calls;
    if (sim::CurrentExec() != c->proxy->tag()) {
      sim::Fail("WRONG_EXECUTOR", "observer %d: resumed after %s outside e (tag %d)", o, kOpNames[op], sim::CurrentExec());
      co_return {};
    }
    if (!copy.Valid() || !copy.Ready()) {
      sim::Fail("WAIT_NOT_READY", "%s resumed but the shared future is not valid and ready", kOpNames[op]);
      co_return {};
    }
    c->Saw(o, op, sim::Observe(copy.Touch(), "Touch after co_await AwaitSticky/AwaitOn(copy)"));
    co_return {};
  }

  void Observe(int o, const SF& base, SF* own) {
    for (std::uint32_t y = 0; y < delays[static_cast<std::size_t>(o)]; ++y) {
      sim::Yield();
    }
    const SF& c = own != nullptr ? *own : base;
    for (int code : programs[static_cast<std::size_t>(o)]) {
      const int op = code % 100;
      const int fl = code / 100;
      switch (op) {
        case kThenInline: {
          WithCallback(o, op, fl, [&](auto cb) {
            auto f = c.ThenInline(std::move(cb));
            (void)std::move(f).Get();
          });
        } break;
        case kThenExec: {
          WithCallback(o, op, fl, [&](auto cb) {
            auto f = c.Then(*proxy, std::move(cb));
            (void)std::move(f).Get();
          });
        } break;
        case kSubscribeInline:
          WithCallback(o, op, fl, [&](auto cb) {
            c.SubscribeInline(std::move(cb));
          });
          break;
        case kSubscribeExec:
          WithCallback(o, op, fl, [&](auto cb) {
            c.Subscribe(*proxy, std::move(cb));
          });
          break;
        case kShareGet: {
          auto f = yaclib::Share(c);
          Saw(o, op, sim::Observe(std::move(f).Get(), "Share().Get"));
        } break;
        case kShareExecThen: {
          auto f = yaclib::Share(c, *proxy);
          const std::size_t slot = NewAttached(o, op);
          auto f2 = std::move(f).ThenInline([this, o, op, slot](yaclib::Result<T, E>&& r) {
            ++attached[slot].calls;
            Saw(o, op, sim::Observe(r, "Share(e).ThenInline"));
          });
          (void)std::move(f2).Get();
        } break;
        case kShareExecInherit: {
          SIM_PROBE("share_with_executor_then_inherited");
          WithCallback(o, kThenExec, fl, [&](auto cb) {
            auto f = yaclib::Share(c, *proxy).Then(std::move(cb));
            (void)std::move(f).Get();
          });
        } break;
        case kConnectUnique: {
          auto [f, p] = yaclib::MakeContract<T, E>();
          yaclib::Connect(c, std::move(p));
          Saw(o, op, sim::Observe(std::move(f).Get(), "Get of a unique contract connected to the shared future"));
        } break;
        case kConnectShared: {
          auto [f, p] = yaclib::MakeSharedContract<T, E>();
          yaclib::Connect(c, std::move(p));
          Saw(o, op, sim::Observe(std::as_const(f).Get(), "Get of a shared contract connected to the shared future"));
        } break;
        case kWaitTouch:
          yaclib::Wait(c);
          sim::ReuseDeadFrames();
          if (!c.Ready()) {
            sim::Fail("WAIT_NOT_READY", "Wait returned but the shared future is not Ready");
          }
          Saw(o, op, sim::Observe(c.Touch(), "Touch after Wait"));
          break;
        case kGetConst:
          Saw(o, op, sim::Observe(c.Get(), "Get const&"));
          break;
        case kReadyTouch:
          if (c.Ready()) {
            SIM_PROBE("ready_true_sampled");
            Saw(o, op, sim::Observe(c.Touch(), "Touch after Ready()==true"));
          }
          break;
        case kCopyUse: {
          SF copy = c;
          sim::Point();
          Saw(o, op, sim::Observe(std::as_const(copy).Get(), "Get const& of a fresh copy"));
        } break;
        case kWhenAllCopies: {
          auto f = yaclib::WhenAll<yaclib::FailPolicy::None>(SF{c}, SF{c});
          auto r = std::move(f).Get();
          if (!r || std::as_const(r).Value().size() != 2) {
            sim::Fail("WRONG_RESULT", "WhenAll<None> over two copies did not produce two results");
          } else {
            Saw(o, op, sim::Observe(std::as_const(r).Value()[0], "WhenAll(copies)[0]"));
            Saw(o, op, sim::Observe(std::as_const(r).Value()[1], "WhenAll(copies)[1]"));
          }
        } break;
        case kWhenAnyCopies: {
          auto f = yaclib::WhenAny(SF{c}, SF{c});
          Saw(o, op, sim::Observe(std::move(f).Get(), "WhenAny(copies)"));
        } break;
        case kCoAwait:
        case kCoAwaitAwait: {
          const std::size_t slot = NewAttached(o, op);
          auto f = op == kCoAwait ? AwaitCopy(this, o, slot, SF{c}) : AwaitViaAwait(this, o, slot, SF{c});
          auto r = std::move(f).Get();
          if (!r) {
            sim::Fail("COROUTINE_FAILED", "the observer coroutine did not finish with a value");
          }
        } break;
        case kCoAwaitSticky:
        case kCoAwaitOn: {
          SIM_PROBE("shared_future_await_sticky_or_on");
          const std::size_t slot = NewAttached(o, op);
          auto f = AwaitStickyOrOn(this, o, slot, SF{c}, op);
          auto r = std::move(f).Get();
          if (!r) {
            sim::Fail("COROUTINE_FAILED", "the observer coroutine did not finish with a value");
          }
        } break;
        case kThenInherit: {
          if (on_handle != nullptr) {
            SIM_PROBE("shared_future_on_then");
            WithCallback(o, kThenExec, fl, [&](auto cb) {
              auto f = on_handle->Then(std::move(cb));
              (void)std::move(f).Get();
            });
          } else {
            WithCallback(o, kThenExec, fl, [&](auto cb) {
              auto f = c.Then(*proxy, std::move(cb));
              (void)std::move(f).Get();
            });
          }
        } break;
        case kSubscribeInherit:
          if (on_handle != nullptr) {
            WithCallback(o, kSubscribeExec, fl, [&](auto cb) {
              on_handle->Subscribe(std::move(cb));
            });
          } else {
            WithCallback(o, kSubscribeExec, fl, [&](auto cb) {
              c.Subscribe(*proxy, std::move(cb));
            });
          }
          break;
        case kWhenAllOwn: {
          if (own != nullptr) {
            auto [of, opr] = yaclib::MakeSharedContract<T, E>();
            std::move(opr).Set(T{777});
            auto f = yaclib::WhenAll<yaclib::FailPolicy::None>(std::move(*own), std::move(of));
            *own = SF{};
            auto r = std::move(f).Get();
            if (!r || std::as_const(r).Value().size() != 2) {
              sim::Fail("WRONG_RESULT", "WhenAll<None>(own, other) did not produce two results");
            } else {
              Saw(o, op, sim::Observe(std::as_const(r).Value()[0], "WhenAll(move(own), other)[0]"));
            }
          }
        } break;
        case kWhenAnyOwn: {
          if (own != nullptr) {
            SF dup = *own;
            auto f = yaclib::WhenAny(std::move(*own), std::move(dup));
            *own = SF{};
            Saw(o, op, sim::Observe(std::move(f).Get(), "WhenAny(move(own), copy)"));
          }
        } break;
        case kWhenAnyIterAux: {
          std::vector<SF> v{SF{c}, SF{*aux}};
          auto f = yaclib::WhenAny(v.begin(), v.size());
          v.clear();
          const Outcome got = sim::Observe(std::move(f).Get(), "WhenAny(begin,2){copy, later}");
          const Outcome want = Model().kind == OKind::Value ? Model() : Outcome{OKind::Value, 555};
          if (got != want) {
            sim::Fail("WRONG_RESULT", "observer %d: WhenAny(begin,2) over {the shared future, one fulfilled later with 555} gave %s, expected %s", o, got.Str().c_str(),
                      want.Str().c_str());
          }
        } break;
        case kWhenAllIterAux: {
          std::vector<SF> v{SF{c}, SF{*aux}};
          auto f = yaclib::WhenAll<yaclib::FailPolicy::None>(v.begin(), v.size());
          v.clear();
          auto r = std::move(f).Get();
          if (!r || std::as_const(r).Value().size() != 2) {
            sim::Fail("WRONG_RESULT", "WhenAll<None>(begin,2) did not produce two results");
          } else {
            Saw(o, op, sim::Observe(std::as_const(r).Value()[0], "WhenAll<None>(begin,2)[0]"));
            const Outcome second = sim::Observe(std::as_const(r).Value()[1], "WhenAll<None>(begin,2)[1]");
            if (second != Outcome{OKind::Value, 555}) {
              sim::Fail("WRONG_RESULT", "observer %d: WhenAll<None>(begin,2)[1] is %s, the second shared state was fulfilled with 555", o, second.Str().c_str());
            }
          }
        } break;
        case kReturnedByStep: {
          auto f = yaclib::MakeFuture<int, E>(0).ThenInline([held = SF{c}](int) {
            return held;
          });
          Saw(o, op, sim::Observe(std::move(f).Get(), "future of a step that returned the copy"));
        } break;
        case kTouchMove: {
          if (own != nullptr && own->Ready()) {
            SIM_PROBE("touch_rvalue");
            Saw(o, op, sim::Observe(std::move(*own).Touch(), "Touch&&"));
            *own = SF{};
          }
        } break;
        case kGetMove: {
          if (own != nullptr) {
            SIM_PROBE("get_rvalue");
            Saw(o, op, sim::Observe(std::move(*own).Get(), "Get&&"));
            *own = SF{};
          }
        } break;
        default:
          if (own != nullptr) {
            SIM_FAULT("shared_copy_dropped");
            *own = SF{};
          }
          break;
      }
    }
  }

  void Run() final {
    yaclib::FairThreadPool pool{pool_workers};
    sim::Proxy px{exec_pool ? static_cast<yaclib::IExecutor*>(&pool) : &yaclib::MakeInline(), 1};
    proxy = &px;
    {
      SF root;
      yaclib::SharedPromise<T, E> promise;
      yaclib::Promise<T, E> unique_promise;
      yaclib::SharedFutureOn<T, E> root_on;
      auto before_set = [this] {
        for (std::uint32_t y = 0; y < prod_delay; ++y) {
          sim::Yield();
        }
        sim::RaceWrite(&cell, sizeof cell);
        cell = id;
        set_invoke = sim::Seq();
      };
      if (run_kind == 1) {
        root_on = yaclib::RunShared<E>(px, [this, before_set]() -> yaclib::Result<T, E> {
          before_set();
          switch (producer) {
            case kSetValue: return T{id};
            case kSetError: return E{id};
            case kSetException: throw sim::TaggedEx{id};
            default: return yaclib::StopTag{};
          }
        });
      } else if (run_kind == 2) {
        root_on = yaclib::AsyncSharedContract<T, E>(px, [this, before_set](yaclib::SharedPromise<T, E> pp) {
          before_set();
          switch (producer) {
            case kSetValue: std::move(pp).Set(T{id}); break;
            case kSetError: std::move(pp).Set(E{id}); break;
            case kSetException: std::move(pp).Set(sim::MakeEx(id)); break;
            default: {
              SIM_FAULT("promise_dropped");
              auto dead = std::move(pp);
              (void)dead;
            } break;
          }
        });
      }
      yaclib::Promise<void, E> gate_promise;
      if (run_kind == 3) {
        auto [gf, gp] = yaclib::MakeContract<void, E>();
        gate_promise = std::move(gp);
        root = CoShared(this, std::move(gf));
      } else if (run_kind == 4) {
        SIM_PROBE("split_of_a_coroutine_future");
        auto [gf, gp] = yaclib::MakeContract<void, E>();
        gate_promise = std::move(gp);
        root = yaclib::Split(CoUnique(this, std::move(gf)));
      } else if (run_kind != 0) {
        if (!solo_on) {
          root = yaclib::SharedFutureOn<T, E>{root_on}.On(nullptr);
        } else {
          SIM_PROBE("single_handle_branches");
        }
        on_handle = &root_on;
      } else if (split_unique) {
        // the shared state is fed by a unique future through Connect: the producer fulfils the unique promise
        auto [f, p] = yaclib::MakeContract<T, E>();
        if (split_after_set) {
          SIM_PROBE("split_of_a_ready_future");
          sim::RaceWrite(&cell, sizeof cell);
          cell = id;
          set_invoke = sim::Seq();
          switch (producer) {
            case kSetValue: std::move(p).Set(T{id}); break;
            case kSetError: std::move(p).Set(E{id}); break;
            case kSetException: std::move(p).Set(sim::MakeEx(id)); break;
            default: {
              SIM_FAULT("promise_dropped");
              auto dead = std::move(p);
              (void)dead;
            } break;
          }
          set_return = sim::Seq();
        }
        root = yaclib::Split(std::move(f));
        unique_promise = std::move(p);
      } else if (promise_first) {
        promise = yaclib::MakeSharedPromise<T, E>();
        root = yaclib::Split(promise);
      } else {
        auto [f, p] = yaclib::MakeSharedContract<T, E>();
        root = std::move(f);
        promise = std::move(p);
      }
      std::deque<SF> copies;
      for (int o = 0; o < observers; ++o) {
        copies.push_back(by_reference ? SF{} : (promise_first && (o % 2) == 1 ? yaclib::Split(promise) : SF{root}));
      }
      SF by_ref_handle = by_reference ? root : SF{};
      auto [sub_uf, sub_up] = yaclib::MakeContract<T, E>();
      auto [sub_sf, sub_sp] = yaclib::MakeSharedContract<T, E>();
      auto fulfil = [this, sup = std::move(sub_up), ssp = std::move(sub_sp)](auto pp) mutable {
        for (std::uint32_t y = 0; y < prod_delay; ++y) {
          sim::Yield();
        }
        if constexpr (std::is_same_v<decltype(pp), yaclib::SharedPromise<T, E>>) {
          if ((subsumed & 1) != 0) {
            SIM_PROBE("connect_primary_unique");
            yaclib::Connect(pp, std::move(sup));
          }
          if ((subsumed & 2) != 0) {
            SIM_PROBE("connect_primary_shared");
            yaclib::Connect(pp, std::move(ssp));
          }
        }
        sim::RaceWrite(&cell, sizeof cell);
        cell = id;
        set_invoke = sim::Seq();
        switch (producer) {
          case kSetValue: std::move(pp).Set(T{id}); break;
          case kSetError: std::move(pp).Set(E{id}); break;
          case kSetException: std::move(pp).Set(sim::MakeEx(id)); break;
          default: {
            SIM_FAULT("promise_dropped");
            auto dead = std::move(pp);
            (void)dead;
          } break;
        }
        set_return = sim::Seq();
      };
      yaclib_std::thread prod = run_kind >= 3 ? yaclib_std::thread{[this, gp = std::move(gate_promise)]() mutable {
        for (std::uint32_t y = 0; y < prod_delay; ++y) {
          sim::Yield();
        }
        std::move(gp).Set();
        set_return = sim::Seq();
      }}
                                : run_kind != 0 ? yaclib_std::thread{[] {
      }}
                                : split_unique ? yaclib_std::thread{[fulfil = std::move(fulfil), pp = std::move(unique_promise)]() mutable {
        if (pp.Valid()) {
          fulfil(std::move(pp));
        }
      }}
                                             : yaclib_std::thread{[fulfil = std::move(fulfil), pp = std::move(promise)]() mutable {
                                                 fulfil(std::move(pp));
                                               }};
      auto [aux_f, aux_p] = yaclib::MakeSharedContract<T, E>();
      SF aux_future = std::move(aux_f);
      yaclib::SharedPromise<T, E> aux_promise = std::move(aux_p);
      aux = &aux_future;
      std::deque<yaclib_std::thread> ts;
      for (int o = 0; o < observers; ++o) {
        ts.emplace_back([this, o, &by_ref_handle, &copies] {
          Observe(o, by_ref_handle, by_reference ? nullptr : &copies[static_cast<std::size_t>(o)]);
        });
      }
      if (root_drops_early) {
        root = SF{};
      }
      prod.join();
      // the second shared state of the iterator-form combinator ops: fulfilled only after the main one
      std::move(aux_promise).Set(T{555});
      for (auto& t : ts) {
        t.join();
      }
      aux = nullptr;
      aux_future = SF{};
      if ((subsumed & 1) != 0) {
        Saw(-1, kConnectUnique, sim::Observe(std::move(sub_uf).Get(), "Get of the future of a unique promise connected to the primary shared promise"));
      }
      if ((subsumed & 2) != 0) {
        Saw(-1, kConnectShared, sim::Observe(std::as_const(sub_sf).Get(), "Get of the future of a shared promise connected to the primary shared promise"));
      }
      sim::SleepNs(50'000'000);  // subscriptions on the executor finish
      on_handle = nullptr;
    }
    px.NoteStopInvoked();
    pool.SoftStop();
    pool.Wait();
    px.CheckQuiescent("C06");
    proxy = nullptr;
  }

  void Finish() final {
    if (sim::Failed()) {
      return;
    }
    const Outcome model = Model();
    for (auto& s : seen) {
      if (s.got != model) {
        sim::Fail("WRONG_RESULT", "observer %d (%s) saw %s, the producer did %s", s.observer, kOpNames[s.op], s.got.Str().c_str(), model.Str().c_str());
        return;
      }
      if (s.at < set_invoke || set_invoke == 0) {
        sim::Fail("EARLY", "observer %d (%s) observed the result (seq %llu) before the producer began to fulfil (seq %llu)", s.observer, kOpNames[s.op],
                  (unsigned long long)s.at, (unsigned long long)set_invoke);
        return;
      }
      if ((s.op == kThenExec || s.op == kSubscribeExec) && s.exec != 1) {
        sim::Fail("WRONG_EXECUTOR", "observer %d: %s callback ran outside its executor", s.observer, kOpNames[s.op]);
        return;
      }
    }
    for (auto& a : attached) {
      if (a.flavour != 0 && model.kind != OKind::Value) {
        // a value-taking callback is skipped when the shared result is a failure
        if (a.calls != 0) {
          sim::Fail("CALLBACK_INVOKED_WRONGLY", "observer %d: value-taking callback attached with %s ran although the result is %s", a.observer, kOpNames[a.op],
                    model.Str().c_str());
          return;
        }
        continue;
      }
      if (a.calls != 1) {
        sim::Fail(a.calls == 0 ? "LOST" : "DUPLICATE", "observer %d: callback attached with %s fired %d times", a.observer, kOpNames[a.op], a.calls);
        return;
      }
    }
    for (auto& prog : programs) {
      for (int code : prog) {
        char name[96];
        std::snprintf(name, sizeof name, "cell_op_%s%s", kOpNames[code % 100], kFlavourNames[code / 100]);
        sim::CountDyn(name);
      }
    }
  }

  int producer = 0, observers = 2;
  bool split_unique = false, split_after_set = false;
  const SF* aux = nullptr;
  int subsumed = 0;
  int run_kind = 0;
  bool solo_on = false;
  const yaclib::SharedFutureOn<T, E>* on_handle = nullptr;
  bool promise_first = false, by_reference = false, exec_pool = false, root_drops_early = false;
  std::uint32_t pool_workers = 1, prod_delay = 0, id = 1;
  std::vector<std::vector<int>> programs;
  std::vector<std::uint32_t> delays;
  std::vector<Observation> seen;
  std::deque<Attached> attached;
  std::uint64_t set_invoke = 0, set_return = 0;
  std::uint32_t cell = 0;
  sim::Proxy* proxy = nullptr;
};

}  // namespace

SIM_HARNESS("C06", "c06_shared", Case,
            "WRONG_RESULT EARLY LOST DUPLICATE CALLBACK_INVOKED_WRONGLY COROUTINE_FAILED MOVED_FROM_READ TORN WRONG_EXECUTOR STALE_PAYLOAD WAIT_NOT_READY LEAK LEAK_OBJECT DOUBLE_DESTROY USE_AFTER_DESTROY "
            "JOB_LOST EXECUTOR_REF_LEAK DEADLOCK NO_PROGRESS CRASH:*")
