// C07 — Strand: one job at a time, in submission order, none lost (DESIGN §3 C07).
#include <sim/util.hpp>

#include <yaclib/exe/inline.hpp>
#include <yaclib/exe/strand.hpp>
#include <yaclib/exe/submit.hpp>
#include <yaclib/runtime/fair_thread_pool.hpp>

#include <deque>
#include <vector>
#include <yaclib_std/thread>

namespace {

enum Under : int { kPool, kInline, kStrandOverStrand, kUnderCount };
const char* kUnderNames[] = {"strand(proxy(pool))", "strand(proxy(inline))", "strand(strand(proxy(pool)))"};

class Case;

struct JobState {
  int submitter = 0;
  int pos = 0;        // position in the submitter's program
  int group = 0;      // 0: outermost strand, 1: inner strand (strand-over-strand only)
  bool lambda = false;
  std::uint64_t submit_invoke = 0, submit_return = 0;
  std::uint64_t call_begin = 0, call_end = 0, drop_at = 0, destroyed_at = 0;
  int calls = 0, drops = 0;
};

struct TJob final : yaclib::Job {
  Case* c = nullptr;
  int idx = 0;
  void Call() noexcept final;
  void Drop() noexcept final;
};

// capture of lambda jobs: tells the case when the functor dies (a dropped UniqueJob just deletes itself)
struct Notifier {
  Case* c;
  int idx;
  bool armed;
  Notifier(Case* cc, int i) noexcept : c{cc}, idx{i}, armed{true} {
  }
  Notifier(Notifier&& o) noexcept : c{o.c}, idx{o.idx}, armed{o.armed} {
    o.armed = false;
  }
  Notifier(const Notifier&) = delete;
  ~Notifier();
};

class Case final : public sim::CaseBase {
 public:
  void Generate(sim::Gen& g) final {
    under = static_cast<int>(g.Draw(kUnderCount));
    submitters = 1 + static_cast<int>(g.Draw(4));
    workers = 1 + g.Draw(3);
    for (int s = 0; s < submitters; ++s) {
      const int m = 1 + static_cast<int>(g.Draw(sim::Thorough() ? 10 : 6));
      for (int k = 0; k < m; ++k) {
        JobState j;
        j.submitter = s;
        j.pos = k;
        j.lambda = g.Flip();
        j.group = under == kStrandOverStrand ? static_cast<int>(g.Draw(2)) : 0;
        jobs.push_back(j);
      }
      gaps.push_back(static_cast<int>(g.Draw(3)));
    }
    const std::uint32_t f = g.Draw(4);
    if (f == 1) {
      reject_from = static_cast<int>(g.Draw(4));
    } else if (f == 2 && under != kInline) {
      stop_kind = 1 + static_cast<int>(g.Draw(3));
      stop_at = g.Draw(30) * 20;
    }
    body_points = static_cast<int>(g.Draw(3));
  }

  void Describe(sim::Json& j) const final {
    j.KV("strand", kUnderNames[under]).KV("submitters", submitters).KV("jobs", static_cast<int>(jobs.size())).KV("pool_workers", workers);
    j.Key("program").Arr();
    for (auto& job : jobs) {
      j.Obj().KV("by", job.submitter).KV("kind", job.lambda ? "Submit(strand, lambda)" : "strand.Submit(job)").KV("strand", job.group == 0 ? "outer" : "inner").End();
    }
    j.EndArr();
    if (reject_from >= 0) {
      j.KV("underlying_rejects_from_submission", reject_from);
    }
    if (stop_kind != 0) {
      j.KV("pool_stop", stop_kind == 1 ? "Stop" : stop_kind == 2 ? "HardStop" : "SoftStop").KV("pool_stop_at_ns", stop_at);
    }
    j.KV("preemption_points_in_job_body", body_points);
  }

  void OnCall(int idx) {
    auto& j = jobs[static_cast<std::size_t>(idx)];
    ++j.calls;
    if (j.calls > 1 || j.drops > 0) {
      sim::Fail("JOB_FINISHED_TWICE", "job %d (submitter %d #%d) called although already %s", idx, j.submitter, j.pos, j.drops > 0 ? "dropped" : "called");
    }
    j.call_begin = sim::Seq();
    const int depth = ++inside[j.group];
    ++inside_total;
    if (depth != 1) {
      sim::Fail("OVERLAP", "two jobs of the same strand are running at once (job %d entered while another is inside)", idx);
    }
    if (inside_total != 1) {
      sim::Fail("OVERLAP", "a job of the outer strand overlaps a job of the strand it runs on (job %d)", idx);
    }
    // critical section with preemption points; the plain cell is what C04's race build watches
    sim::RaceRead(&cell, sizeof cell);
    const std::uint64_t before = cell;
    for (int i = 0; i < body_points; ++i) {
      sim::Point();
    }
    sim::RaceWrite(&cell, sizeof cell);
    cell = before + 1;
    if (inside[j.group] != 1) {
      sim::Fail("OVERLAP", "another job of the same strand entered while job %d was inside", idx);
    }
    --inside[j.group];
    --inside_total;
    order.push_back(idx);
    jobs[static_cast<std::size_t>(idx)].call_end = sim::Seq();
  }

  void OnDrop(int idx) {
    auto& j = jobs[static_cast<std::size_t>(idx)];
    ++j.drops;
    if (j.drops > 1 || j.calls > 0) {
      sim::Fail("JOB_FINISHED_TWICE", "job %d dropped although already %s", idx, j.calls > 0 ? "called" : "dropped");
    }
    j.drop_at = sim::Seq();
    if (proxy->dropped() == 0) {
      sim::Fail("DROP_WITHOUT_STOP", "job %d was dropped although the underlying executor never refused work", idx);
    }
  }

  void OnDestroyed(int idx) {
    auto& j = jobs[static_cast<std::size_t>(idx)];
    j.destroyed_at = sim::Seq();
    if (j.calls == 0) {
      // a lambda job that dies without having been called was dropped
      OnDrop(idx);
    }
  }

  void Run() final {
    yaclib::FairThreadPool pool{workers};
    sim::Proxy px{under == kInline ? &yaclib::MakeInline() : static_cast<yaclib::IExecutor*>(&pool), 1};
    proxy = &px;
    px.RejectFrom(reject_from);
    yaclib::IExecutorPtr inner = yaclib::MakeStrand(&px);
    yaclib::IExecutorPtr outer = under == kStrandOverStrand ? yaclib::MakeStrand(inner) : inner;
    std::vector<TJob> tjobs(jobs.size());
    for (std::size_t i = 0; i < jobs.size(); ++i) {
      tjobs[i].c = this;
      tjobs[i].idx = static_cast<int>(i);
    }
    yaclib_std::thread stopper;
    if (stop_kind != 0) {
      stopper = yaclib_std::thread{[&] {
        sim::SleepNs(stop_at);
        px.NoteStopInvoked();
        SIM_FAULT("executor_stop");
        if (stop_kind == 1) {
          pool.Stop();
        } else if (stop_kind == 2) {
          pool.HardStop();
        } else {
          pool.SoftStop();  // the pool stops by itself once it is idle; a strand scheduled meanwhile is run or dropped, never kept
        }
      }};
    }
    std::deque<yaclib_std::thread> ts;
    for (int s = 0; s < submitters; ++s) {
      ts.emplace_back([&, s] {
        for (std::size_t i = 0; i < jobs.size(); ++i) {
          if (jobs[i].submitter != s) {
            continue;
          }
          for (int y = 0; y < gaps[static_cast<std::size_t>(s)]; ++y) {
            sim::Yield();
          }
          yaclib::IExecutor& target = jobs[i].group == 0 ? *outer : *inner;
          jobs[i].submit_invoke = sim::Seq();
          if (jobs[i].lambda) {
            yaclib::Submit(target, [n = Notifier{this, static_cast<int>(i)}]() noexcept {
              n.c->OnCall(n.idx);
            });
          } else {
            target.Submit(tjobs[i]);
          }
          jobs[i].submit_return = sim::Seq();
        }
      });
    }
    for (auto& t : ts) {
      t.join();
    }
    sim::SleepNs(50'000'000);  // quiescence on the virtual clock
    if (stop_kind != 0) {
      stopper.join();
    }
    px.NoteStopInvoked();
    pool.SoftStop();
    pool.Wait();
    outer = nullptr;
    inner = nullptr;
    px.CheckQuiescent("strand's underlying executor");
    // reach probes from the proxy's view of the strand's own job
    const auto& recs = px.jobs();
    for (std::size_t a = 0; a < recs.size(); ++a) {
      for (std::size_t b = 0; b < recs.size(); ++b) {
        if (a != b && recs[b].call_begin != 0 && recs[a].submit_invoke > recs[b].call_begin && recs[a].submit_invoke < recs[b].call_end) {
          if (recs[a].submit_fiber == recs[b].run_fiber) {
            SIM_PROBE("strand_resubmitted_itself_after_batch");
          } else {
            SIM_PROBE("strand_scheduled_by_submitter_while_batch_running");
          }
        }
      }
      if (recs[a].drop_at != 0) {
        SIM_PROBE("underlying_dropped_the_strand");
      }
    }
    proxy = nullptr;
  }

  void Finish() final {
    if (sim::Failed()) {
      return;
    }
    int dropped = 0;
    for (std::size_t i = 0; i < jobs.size(); ++i) {
      const auto& j = jobs[i];
      const int n = j.calls + j.drops;
      if (n != 1) {
        sim::Fail(n == 0 ? "JOB_LOST" : "JOB_FINISHED_TWICE", "job %zu (submitter %d #%d) finished %d times (calls %d, drops %d)", i, j.submitter, j.pos, n,
                  j.calls, j.drops);
        return;
      }
      if (j.lambda && j.destroyed_at == 0) {
        sim::Fail("LEAK_OBJECT", "lambda job %zu was never destroyed", i);
        return;
      }
      dropped += j.drops;
    }
    if (dropped >= 2) {
      SIM_PROBE("at_least_two_jobs_dropped");
    }
    // order: position of each called job in the execution order
    std::vector<int> where(jobs.size(), -1);
    for (std::size_t k = 0; k < order.size(); ++k) {
      where[static_cast<std::size_t>(order[k])] = static_cast<int>(k);
    }
    for (std::size_t a = 0; a < jobs.size(); ++a) {
      for (std::size_t b = 0; b < jobs.size(); ++b) {
        if (a == b || jobs[a].calls == 0 || jobs[b].calls == 0 || jobs[a].group != jobs[b].group) {
          continue;
        }
        // a's submission returned before b's began (same thread: program order) => a runs first
        if (jobs[a].submit_return < jobs[b].submit_invoke && where[a] > where[b]) {
          sim::Fail("WRONG_ORDER", "job %zu (submitter %d #%d) was submitted before job %zu (submitter %d #%d) began to be submitted, but ran after it",
                    a, jobs[a].submitter, jobs[a].pos, b, jobs[b].submitter, jobs[b].pos);
          return;
        }
      }
    }
    std::uint64_t called = 0;
    for (auto& j : jobs) {
      called += static_cast<std::uint64_t>(j.calls);
    }
    SIM_CHECK(cell == called, "LOST_UPDATE", "shared cell is %llu after %llu critical sections", (unsigned long long)cell, (unsigned long long)called);
  }

  int under = 0, submitters = 1, reject_from = -1, stop_kind = 0, body_points = 0;
  std::uint32_t workers = 1, stop_at = 0;
  std::vector<JobState> jobs;
  std::vector<int> gaps;
  std::vector<int> order;
  int inside[2] = {0, 0};
  int inside_total = 0;
  std::uint64_t cell = 0;
  sim::Proxy* proxy = nullptr;
};

void TJob::Call() noexcept {
  c->OnCall(idx);
}
void TJob::Drop() noexcept {
  c->OnDrop(idx);
}
Notifier::~Notifier() {
  if (armed) {
    c->OnDestroyed(idx);
  }
}

}  // namespace

SIM_HARNESS("C07", "c07_strand", Case,
            "OVERLAP WRONG_ORDER JOB_LOST JOB_FINISHED_TWICE DROP_WITHOUT_STOP LOST_UPDATE LEAK LEAK_OBJECT DEADLOCK NO_PROGRESS CRASH:*")
