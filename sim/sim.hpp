// Deterministic-simulation core shared by every harness (see DESIGN.md §2).
// One run = (tape, choices): `tape` is the recorded stream of generator draws (the scenario descriptor), `choices`
// is the sparse list of non-default answers given to the fiber layer's YACLIB_VERIF hooks (the schedule + faults).
#pragma once

#include <cstdarg>
#include <cstddef>
#include <cstdint>
#include <cstdio>
#include <string>
#include <vector>

namespace sim {

// ---------------------------------------------------------------- PRNG (splitmix64 / xoroshiro128+)
std::uint64_t Mix(std::uint64_t a, std::uint64_t b) noexcept;

struct Rng {
  std::uint64_t s0 = 1, s1 = 2;
  Rng() = default;
  explicit Rng(std::uint64_t seed) noexcept {
    Seed(seed);
  }
  void Seed(std::uint64_t seed) noexcept;
  std::uint64_t Next() noexcept;
  std::uint32_t Below(std::uint32_t n) noexcept {  // n >= 1
    return static_cast<std::uint32_t>((Next() >> 11) % n);
  }
};

// ---------------------------------------------------------------- Generator with a recorded tape
// Every scenario decision is a Draw(n). In record mode the value comes from the generator PRNG and is appended to the
// tape; in replay mode it is read from the tape (value % n, 0 when the tape is exhausted), which makes *any* integer
// vector a valid descriptor: that is what lets the minimiser zero / lower / delete draws without knowing the harness.
// Convention for harness authors: 0 is the simplest alternative of every draw.
class Gen {
 public:
  std::uint32_t Draw(std::uint32_t n);
  // A draw that does not change the shape of the scenario (payload ids and the like): recorded on the tape, but not
  // part of the descriptor hash used to count distinct cases.
  std::uint32_t Noise(std::uint32_t n) {
    const std::uint64_t h = desc_hash;
    const std::uint32_t v = Draw(n);
    desc_hash = h;
    return v;
  }
  bool Flip() {
    return Draw(2) != 0;
  }
  // true with probability num/den
  bool Chance(std::uint32_t num, std::uint32_t den) {
    return Draw(den) >= den - num;
  }
  std::uint32_t Range(std::uint32_t lo, std::uint32_t hi) {  // inclusive
    return lo + Draw(hi - lo + 1);
  }

  std::vector<std::uint32_t> tape;
  std::size_t pos = 0;
  bool replay = false;
  Rng rng;
  std::uint64_t desc_hash = 1469598103934665603ULL;
};

// ---------------------------------------------------------------- tiny JSON writer (describe(), evidence samples)
class Json {
 public:
  Json& Obj() {
    Sep();
    s += '{';
    first = true;
    return *this;
  }
  Json& End() {
    s += '}';
    first = false;
    return *this;
  }
  Json& Arr() {
    Sep();
    s += '[';
    first = true;
    return *this;
  }
  Json& EndArr() {
    s += ']';
    first = false;
    return *this;
  }
  Json& Key(const char* k) {
    Sep();
    s += '"';
    s += k;
    s += "\":";
    first = true;
    return *this;
  }
  Json& Str(const char* v);
  Json& Str(const std::string& v) {
    return Str(v.c_str());
  }
  Json& Num(long long v) {
    Sep();
    s += std::to_string(v);
    return *this;
  }
  Json& U64(unsigned long long v) {
    Sep();
    s += std::to_string(v);
    return *this;
  }
  Json& Bool(bool v) {
    Sep();
    s += v ? "true" : "false";
    return *this;
  }
  Json& Raw(const std::string& v) {
    Sep();
    s += v;
    return *this;
  }
  Json& KV(const char* k, const char* v) {
    return Key(k).Str(v);
  }
  Json& KV(const char* k, const std::string& v) {
    return Key(k).Str(v);
  }
  Json& KV(const char* k, long long v) {
    return Key(k).Num(v);
  }
  Json& KV(const char* k, int v) {
    return Key(k).Num(v);
  }
  Json& KV(const char* k, unsigned v) {
    return Key(k).Num(v);
  }
  Json& KV(const char* k, unsigned long v) {
    return Key(k).U64(v);
  }
  Json& KV(const char* k, unsigned long long v) {
    return Key(k).U64(v);
  }
  Json& KV(const char* k, bool v) {
    return Key(k).Bool(v);
  }
  std::string s;

 private:
  void Sep() {
    if (!first && !s.empty()) {
      s += ',';
    }
    first = false;
  }
  bool first = true;
};

// ---------------------------------------------------------------- what a harness implements
class CaseBase {
 public:
  virtual ~CaseBase() = default;
  // Build the scenario descriptor from draws. Runs outside the simulator. Must be a pure function of the draws.
  virtual void Generate(Gen& g) = 0;
  // Human-readable JSON object of the descriptor (goes into replay files and evidence samples).
  virtual void Describe(Json& j) const = 0;
  // Key of a known-finding cell this descriptor falls into (see known_findings.json), or nullptr.
  virtual const char* Known() const {
    return nullptr;
  }
  // The scenario: runs inside the root fiber of a fresh fiber scheduler.
  virtual void Run() = 0;
  // End-of-run oracles over recorded state: runs outside the simulator after everything is quiescent.
  virtual void Finish() {
  }
  // Optional tag appended to every violation class of this case ("CLASS:tag"): keeps the minimiser from drifting to a
  // different defect that happens to show the same generic class (e.g. DEADLOCK of another lock type).
  virtual const char* ClassTag() const {
    return nullptr;
  }
  // Max hook calls (choice points) before the run is declared NO_PROGRESS.
  virtual std::uint64_t StepBudget() const {
    return 400000;
  }
};

using Factory = CaseBase* (*)();

struct HarnessInfo {
  const char* property;  // "C01"
  const char* name;      // "c01_handoff"
  Factory make;
  // classes of violation this harness can emit, for documentation in evidence
  const char* classes;
};

int Main(int argc, char** argv, const HarnessInfo& info);

// ---------------------------------------------------------------- run-time API for scenarios and oracles
// Report a violation of the property. The first one of a run wins; the run continues so that it can be torn down.
void Fail(const char* cls, const char* fmt, ...) __attribute__((format(printf, 2, 3)));
bool Failed() noexcept;

// Global event sequence number of the simulator (single OS thread => true execution order). Every call returns a
// fresh, strictly increasing number.
std::uint64_t Seq() noexcept;
// Slot (0,1,2,... by first appearance in this run) of the running fiber.
int Fiber() noexcept;
// Virtual time in ns.
std::uint64_t NowNs() noexcept;
// A legal preemption point (forwarded to yaclib::InjectFault).
void Point() noexcept;
// Cooperative yield of the current fiber.
void Yield() noexcept;
// Sleep on the virtual clock.
void SleepNs(std::uint64_t ns);
// Profile string given with --profile (one binary can serve several properties with different generator weights and
// oracles); "" if none.
const char* Profile() noexcept;
// true in the thorough tier (--tier thorough): generators use their larger bounds
bool Thorough() noexcept;
// true while the tree is simulated under the race variant (plain accesses traced)
bool RaceBuild() noexcept;

// For harnesses that drive the fiber layer themselves (C17): mix a value into the run's trace hash (compared between
// processes by the determinism checks), report how many fibers / context switches the case had (for the non-trivial
// rule), and end the process from a state that cannot be unwound.
void Digest(std::uint64_t v) noexcept;
void OverrideStats(std::uint32_t fibers, std::uint64_t switches, std::uint64_t steps) noexcept;
[[noreturn]] void Die(const char* cls, const char* msg);

// Plain (non-atomic) accesses the harness wants the C04 happens-before engine to see (no-ops outside the race variant):
// payload cells written before a fulfilment and read after observing it, and the fields of Tracked.
void RaceRead(const void* addr, std::size_t size) noexcept;
void RaceWrite(const void* addr, std::size_t size) noexcept;
// Call right after a blocking library call (Get, Wait, ...) returned: the frames that call used are dead, the caller now
// reuses that stack. In the race build this tells the happens-before engine that the calling fiber writes the region, so
// a completion that still touches the stack event of the returned call shows up as an unordered access.
__attribute__((noinline)) inline void ReuseDeadFrames() noexcept {
  volatile unsigned char buf[3072];
  for (std::size_t i = 0; i < sizeof buf; i += 64) {
    buf[i] = 0x5C;
  }
  RaceWrite(const_cast<unsigned char*>(buf), sizeof buf);
}

int CounterId(const char* name);  // registers a named counter (probe_* / fault_* / stat_*), returns its index
void CounterAdd(int id, std::uint64_t n = 1) noexcept;
void CountDyn(const char* name);  // counter whose name is computed at run time (cell coverage)

#define SIM_COUNT(name)                                                                                                \
  do {                                                                                                                 \
    static const int sim_counter_id_ = ::sim::CounterId(name);                                                         \
    ::sim::CounterAdd(sim_counter_id_);                                                                                \
  } while (false)
#define SIM_PROBE(name) SIM_COUNT("probe_" name)
#define SIM_FAULT(name) SIM_COUNT("fault_" name)
#define SIM_CELL(name) SIM_COUNT("cell_" name)

#define SIM_CHECK(cond, cls, ...)                                                                                      \
  do {                                                                                                                 \
    if (!(cond)) {                                                                                                     \
      ::sim::Fail(cls, __VA_ARGS__);                                                                                   \
    }                                                                                                                  \
  } while (false)

// ---------------------------------------------------------------- Tracked payload (DESIGN §2.7.1)
// Two-field payload {id, ~id} with a life-state byte; copy/move have a preemption point between the two fields so a
// reader racing with construction can be scheduled in the middle and then sees a torn value.
namespace detail {
extern long long gTrackedLive;
extern std::uint64_t gTrackedCopies;
extern std::uint64_t gTrackedMoves;
}  // namespace detail

// Fault: constructing a payload from a Bomb throws (sim::TaggedEx{id}, see util.cpp) before anything is constructed.
struct Bomb {
  std::uint32_t id;
};
namespace detail {
[[noreturn]] void ThrowBomb(std::uint32_t id);
}  // namespace detail

class Tracked {
 public:
  enum : std::uint8_t { kAlive = 0xA1, kMoved = 0xB2, kDead = 0xDD };

  explicit Tracked(const Bomb& b) {
    detail::ThrowBomb(b.id);
  }

  Tracked() noexcept : Tracked{0} {
  }
  explicit Tracked(std::uint32_t id) noexcept : _id{id}, _inv{~id}, _state{kAlive} {
    RaceWrite(this, sizeof *this);
    ++detail::gTrackedLive;
  }
  Tracked(const Tracked& o) noexcept {
    CopyFrom(o);
    ++detail::gTrackedLive;
    ++detail::gTrackedCopies;
  }
  Tracked(Tracked&& o) noexcept {
    CopyFrom(o);
    if (o._state == kAlive) {
      RaceWrite(&o, sizeof o);
      o._state = kMoved;
    }
    ++detail::gTrackedLive;
    ++detail::gTrackedMoves;
  }
  Tracked& operator=(const Tracked& o) noexcept {
    if (this != &o) {
      CheckNotDead("assign-to");
      CopyFrom(o);
      ++detail::gTrackedCopies;
    }
    return *this;
  }
  Tracked& operator=(Tracked&& o) noexcept {
    if (this != &o) {
      CheckNotDead("move-assign-to");
      CopyFrom(o);
      if (o._state == kAlive) {
        o._state = kMoved;
      }
      ++detail::gTrackedMoves;
    }
    return *this;
  }
  ~Tracked() noexcept {
    if (_state == kDead) {
      Fail("DOUBLE_DESTROY", "Tracked id=%u destroyed twice", _id);
    } else if (_state != kAlive && _state != kMoved) {
      Fail("GARBAGE_DESTROY", "destructor ran on something that is not a Tracked (state byte 0x%02x)", _state);
    }
    RaceWrite(this, sizeof *this);
    _state = kDead;
    --detail::gTrackedLive;
  }

  // Oracle-side read: the value must be alive, whole and not moved-from. Returns the id (0xFFFFFFFF on violation).
  std::uint32_t Read(const char* who) const noexcept {
    RaceRead(this, sizeof *this);
    if (_state != kAlive) {
      Fail(_state == kMoved ? "MOVED_FROM_READ" : (_state == kDead ? "USE_AFTER_DESTROY" : "GARBAGE_READ"),
           "%s read a Tracked in state 0x%02x (id field %u)", who, _state, _id);
      return 0xFFFFFFFFU;
    }
    if ((_id ^ _inv) != 0xFFFFFFFFU) {
      Fail("TORN", "%s read a torn Tracked: id=%u inv=%u", who, _id, _inv);
      return 0xFFFFFFFFU;
    }
    return _id;
  }
  bool Alive() const noexcept {
    return _state == kAlive;
  }
  std::uint8_t RawState() const noexcept {
    return _state;
  }
  std::uint32_t RawId() const noexcept {
    return _id;
  }

 private:
  void CheckNotDead(const char* what) const noexcept {
    if (_state == kDead) {
      Fail("USE_AFTER_DESTROY", "%s a destroyed Tracked id=%u", what, _id);
    }
  }
  void CopyFrom(const Tracked& o) noexcept {
    if (o._state == kDead) {
      Fail("USE_AFTER_DESTROY", "copy/move from a destroyed Tracked id=%u", o._id);
    } else if (o._state != kAlive && o._state != kMoved) {
      Fail("GARBAGE_READ", "copy/move from something that is not a Tracked (state byte 0x%02x)", o._state);
    }
    RaceRead(&o, sizeof o);
    RaceWrite(this, sizeof *this);
    _id = o._id;
    Point();
    _inv = o._inv;
    _state = (o._state == kAlive || o._state == kMoved) ? o._state : static_cast<std::uint8_t>(kAlive);
  }

  std::uint32_t _id;
  std::uint32_t _inv;
  std::uint8_t _state;
};

// Move-only flavour of Tracked: Result<TrackedMO, E> is not copyable, which selects the library's move-only code paths.
class TrackedMO final : public Tracked {
 public:
  TrackedMO() noexcept = default;
  explicit TrackedMO(std::uint32_t id) noexcept : Tracked{id} {
  }
  explicit TrackedMO(const Bomb& b) : Tracked{b} {
  }
  TrackedMO(const TrackedMO&) = delete;
  TrackedMO& operator=(const TrackedMO&) = delete;
  TrackedMO(TrackedMO&&) noexcept = default;
  TrackedMO& operator=(TrackedMO&&) noexcept = default;
};

inline long long TrackedLive() noexcept {
  return detail::gTrackedLive;
}

// ---------------------------------------------------------------- allocation ledger (DESIGN §2.7.3)
// Number of heap blocks allocated during the current run and still live.
long long LedgerLive() noexcept;
// While on, freed heap blocks are parked instead of being returned to malloc, so that no address is handed out twice:
// pointer-comparing lock-free code (CAS on list heads) then cannot see an ABA that depends on the allocator's history.
// Turning it off releases everything parked.
void QuarantineFrees(bool on) noexcept;
// RAII: allocations made while one of these is alive are not attributed to the run (simulator bookkeeping).
struct Untracked {
  Untracked() noexcept;
  ~Untracked() noexcept;
};

}  // namespace sim

#define SIM_HARNESS(PROPERTY, NAME, CASE, CLASSES)                                                                     \
  int main(int argc, char** argv) {                                                                                    \
    static const ::sim::HarnessInfo info{PROPERTY, NAME, []() -> ::sim::CaseBase* { return new CASE; }, CLASSES};      \
    return ::sim::Main(argc, argv, info);                                                                              \
  }
