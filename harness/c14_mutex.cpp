// C14 — coroutine Mutex: mutual exclusion and no lost wake-up (DESIGN §3 C14).
#include <sim/util.hpp>

#include <yaclib/async/future.hpp>
#include <yaclib/async/wait.hpp>
#include <yaclib/coro/await.hpp>
#include <yaclib/coro/future.hpp>
#include <yaclib/coro/mutex.hpp>
#include <yaclib/coro/on.hpp>
#include <yaclib/coro/current_executor.hpp>
#include <yaclib/coro/yield.hpp>
#include <yaclib/runtime/fair_thread_pool.hpp>

#include <mutex>
#include <vector>
#include <yaclib_std/thread>

namespace {

using T = sim::Tracked;

enum LockForm : int { kLock, kGuard, kGuardSticky, kTryLock, kTryGuard, kLockFormCount };
const char* kLockNames[] = {"Lock", "Guard", "GuardSticky", "TryLock", "TryGuard"};
enum UnlockForm : int { kUnlock, kUnlockOn, kUnlockHere, kGuardDtor, kUnlockFormCount };
const char* kUnlockNames[] = {"co_await Unlock()", "co_await UnlockOn(e2)", "UnlockHere()", "guard destruction"};

struct Round {
  int lock = 0;
  int unlock = 0;
  bool yield_in_cs = false;
  int guard_origin = 0;  // guards: 0 m.Guard()/m.TryGuard(), 1 deferred guard then g.Lock()/g.TryLock(), 2 adopt_lock after m.Lock() / try_to_lock
  int gap = 0;
  int guard_moves = 0;  // guards, between the critical section and the release: 1 Release() + unlock through the mutex, 2 move-construct, 3 Swap
  // recorded
  std::uint64_t invoke = 0, granted = 0, released = 0;
  int invoke_fiber = -1;
  bool try_failed = false;
};

class Case;

template <typename M>
yaclib::Future<> Worker(Case* c, M* m, int w, yaclib::IExecutor* e, yaclib::IExecutor* e2);
template <typename M>
yaclib::Future<> FinalLocker(M* m, yaclib::IExecutor* e) {
  co_await yaclib::On(*e);
  co_await m->Lock();
  m->UnlockHere();
  co_return {};
}

class Case final : public sim::CaseBase {
 public:
  void Generate(sim::Gen& g) final {
    batching = g.Flip();
    fifo = g.Flip();
    workers = 1 + g.Draw(3);
    const int k = 2 + static_cast<int>(g.Draw(4));
    for (int w = 0; w < k; ++w) {
      std::vector<Round> rs;
      const int n = 1 + static_cast<int>(g.Draw(sim::Thorough() ? 6 : 4));
      for (int r = 0; r < n; ++r) {
        Round rd;
        rd.lock = static_cast<int>(g.Draw(kLockFormCount));
        rd.unlock = static_cast<int>(g.Draw(kUnlockFormCount));
        if ((rd.lock == kLock || rd.lock == kTryLock) && rd.unlock == kGuardDtor) {
          rd.unlock = kUnlockHere;
        }
        if (rd.lock == kGuardSticky && (rd.unlock == kUnlockOn || rd.unlock == kUnlockHere)) {
          rd.unlock = kGuardDtor;
        }
        rd.yield_in_cs = g.Flip();
        rd.gap = static_cast<int>(g.Draw(3));
        rd.guard_origin = (rd.lock == kGuard || rd.lock == kTryGuard) ? static_cast<int>(g.Draw(3)) : 0;
        rd.guard_moves = (rd.lock == kGuard || rd.lock == kTryGuard) && g.Draw(3) == 2 ? 1 + static_cast<int>(g.Draw(4)) : 0;
        rs.push_back(rd);
      }
      rounds.push_back(rs);
    }
  }

  void Describe(sim::Json& j) const final {
    j.KV("mutex", std::string("Mutex<Batching=") + (batching ? "true" : "false") + ", FIFO=" + (fifo ? "true" : "false") + ">");
    j.KV("pool_workers", workers);
    j.Key("coroutines").Arr();
    for (auto& rs : rounds) {
      j.Arr();
      for (auto& r : rs) {
        static const char* origins[] = {"mutex.Guard()/TryGuard()", "UniqueGuard{m, defer_lock} then guard.Lock()/TryLock()",
                                        "UniqueGuard{m, adopt_lock} after m.Lock() / UniqueGuard{m, try_to_lock}"};
        j.Obj().KV("lock", kLockNames[r.lock]).KV("unlock", kUnlockNames[r.unlock]).KV("yield_inside", r.yield_in_cs);
        if (r.lock == kGuard || r.lock == kTryGuard) {
          j.KV("guard_made_by", origins[r.guard_origin]);
          static const char* moves[] = {"", "guard.Release(), then unlock through the mutex", "moved into a second guard (move constructor)",
                                        "swapped into an empty guard (Swap)", "released by move-assigning an empty guard into it (guard = {})"};
          if (r.guard_moves != 0) {
            j.KV("before_release", moves[r.guard_moves]);
          }
        }
        j.End();
      }
      j.EndArr();
    }
    j.EndArr();
  }

  void Enter(int w, Round& r) {
    r.granted = sim::Seq();
    const int now = ++inside;
    if (now != 1) {
      sim::Fail("OVERLAP", "coroutine %d entered the critical section (%s) while another one is inside", w, kLockNames[r.lock]);
    }
    sim::RaceRead(&cell, sizeof cell);
    before = cell;
  }
  void Exit(int w, Round& r) {
    sim::RaceWrite(&cell, sizeof cell);
    cell = before + 1;
    if (inside != 1) {
      sim::Fail("OVERLAP", "another coroutine entered while coroutine %d was inside the critical section", w);
    }
    --inside;
    r.released = sim::Seq();
    ++sections;
  }

  template <typename M>
  void RunT() {
    yaclib::FairThreadPool pool{workers};
    sim::Proxy px[2] = {{&pool, 1}, {&pool, 2}};
    proxies[0] = &px[0];
    proxies[1] = &px[1];
    M m;  // outlives the pool: an UnlockOn re-submits the coroutine before it releases, so the coroutine's completion does
          // not mean that the releasing thread is done with the mutex
    {
      std::vector<yaclib::Future<>> fs;
      for (std::size_t w = 0; w < rounds.size(); ++w) {
        fs.push_back(Worker<M>(this, &m, static_cast<int>(w), &px[w % 2], &px[1 - (w % 2)]));
      }
      yaclib::Wait(fs.begin(), fs.end());
      for (auto& f : fs) {
        auto r = std::move(f).Get();
        if (!r) {
          sim::Fail("COROUTINE_FAILED", "a worker coroutine did not finish with a value (state %d)", static_cast<int>(r.State()));
        }
      }
      // every holder has released: one more blocking request must be granted (a lost release would park it forever)
      sim::SleepNs(5'000'000);
      auto last = FinalLocker<M>(&m, &px[0]);
      auto r = std::move(last).Get();
      if (!r) {
        sim::Fail("COROUTINE_FAILED", "the final locker did not finish with a value");
      }
    }
    sim::SleepNs(20'000'000);
    px[0].NoteStopInvoked();
    px[1].NoteStopInvoked();
    pool.SoftStop();
    pool.Wait();
    px[0].CheckQuiescent("C14");
    px[1].CheckQuiescent("C14");
    records[0] = px[0].jobs();
    records[1] = px[1].jobs();
    proxies[0] = proxies[1] = nullptr;
  }

  void Run() final {
    if (batching) {
      if (fifo) {
        RunT<yaclib::Mutex<true, true>>();
      } else {
        RunT<yaclib::Mutex<true, false>>();
      }
    } else if (fifo) {
      RunT<yaclib::Mutex<false, true>>();
    } else {
      RunT<yaclib::Mutex<false, false>>();
    }
  }

  // The job (segment of a coroutine on an executor thread) in which a request was issued: if the request was not granted
  // by the time that job returned, the coroutine was parked by then.
  std::uint64_t ParkedAt(const Round& r) const {
    for (int p = 0; p < 2; ++p) {
      for (auto& j : records[p]) {
        if (j.run_fiber == r.invoke_fiber && j.call_begin < r.invoke && r.invoke < j.call_end) {
          if (r.granted == 0 || r.granted > j.call_end) {
            return j.call_end;
          }
          return 0;
        }
      }
    }
    return 0;
  }

  void Finish() final {
    if (sim::Failed()) {
      return;
    }
    std::uint64_t expect_sections = 0;
    std::vector<const Round*> all;
    for (auto& rs : rounds) {
      for (auto& r : rs) {
        if (!r.try_failed) {
          ++expect_sections;
          if (r.granted == 0 || r.released == 0) {
            sim::Fail("NOT_GRANTED", "a %s request was never granted", kLockNames[r.lock]);
            return;
          }
        }
        if (r.lock != kTryLock && r.lock != kTryGuard && r.try_failed) {
          sim::Fail("HARNESS", "blocking request marked failed");
        }
        all.push_back(&r);
        char name[64];
        std::snprintf(name, sizeof name, "cell_%s_then_%s%s", kLockNames[r.lock], kUnlockNames[r.unlock], r.try_failed ? "_tryfailed" : "");
        sim::CountDyn(name);
      }
    }
    SIM_CHECK(sections == expect_sections, "LOST_UPDATE", "%llu critical sections ran, %llu were granted", (unsigned long long)sections,
              (unsigned long long)expect_sections);
    SIM_CHECK(cell == sections, "LOST_UPDATE", "shared cell is %llu after %llu critical sections", (unsigned long long)cell, (unsigned long long)sections);
    if (fifo) {
      for (const Round* a : all) {
        if (a->try_failed || a->lock == kTryLock || a->lock == kTryGuard) {
          continue;
        }
        const std::uint64_t parked = ParkedAt(*a);
        if (parked == 0) {
          continue;
        }
        SIM_PROBE("request_known_parked");
        for (const Round* b : all) {
          if (b != a && !b->try_failed && b->invoke > parked && b->granted < a->granted) {
            sim::Fail("NOT_FIFO", "FIFO mutex: a %s request was parked (seq %llu) before a %s request was made (seq %llu), but was granted after it", kLockNames[a->lock],
                      (unsigned long long)parked, kLockNames[b->lock], (unsigned long long)b->invoke);
            return;
          }
        }
      }
    }
  }

  bool batching = true, fifo = false;
  std::uint32_t workers = 1;
  std::vector<std::vector<Round>> rounds;
  int inside = 0;
  std::uint64_t cell = 0, before = 0, sections = 0;
  sim::Proxy* proxies[2] = {nullptr, nullptr};
  std::vector<sim::JobRecord> records[2];
};

#define CRITICAL_SECTION()                                                                                             \
  do {                                                                                                                 \
    c->Enter(w, r);                                                                                                    \
    if (r.yield_in_cs) {                                                                                               \
      co_await yaclib::Yield();                                                                                        \
    } else {                                                                                                           \
      sim::Point();                                                                                                    \
    }                                                                                                                  \
    c->Exit(w, r);                                                                                                     \
  } while (false)

template <typename M>
yaclib::Future<> Worker(Case* c, M* m, int w, yaclib::IExecutor* e, yaclib::IExecutor* e2) {
  T frame_local{7000U + static_cast<std::uint32_t>(w)};
  co_await yaclib::On(*e);
  for (auto& r : c->rounds[static_cast<std::size_t>(w)]) {
    for (int y = 0; y < r.gap; ++y) {
      co_await yaclib::Yield();
    }
    r.invoke_fiber = sim::Fiber();
    r.invoke = sim::Seq();
    switch (r.lock) {
      case kLock:
      case kTryLock: {
        if (r.lock == kLock) {
          co_await m->Lock();
        } else if (!m->TryLock()) {
          r.try_failed = true;
          break;
        }
        CRITICAL_SECTION();
        if (r.unlock == kUnlock) {
          co_await m->Unlock();
        } else if (r.unlock == kUnlockOn) {
          co_await m->UnlockOn(*e2);
          if (sim::CurrentExec() != static_cast<sim::Proxy*>(e2)->tag()) {
            sim::Fail("WRONG_EXECUTOR", "after UnlockOn(e2) coroutine %d is not running in e2", w);
          }
        } else {
          m->UnlockHere();
        }
      } break;
      case kGuard:
      case kTryGuard: {
        yaclib::UniqueGuard<M> g;
        if (r.guard_origin == 1) {
          g = yaclib::UniqueGuard<M>{*m, std::defer_lock};
          if (g.OwnsLock()) {
            sim::Fail("GUARD_NOT_OWNING", "a deferred guard claims to own the lock");
          }
          if (r.lock == kGuard) {
            co_await g.Lock();
          } else {
            (void)g.TryLock();
          }
        } else if (r.guard_origin == 2) {
          if (r.lock == kGuard) {
            co_await m->Lock();
            g = yaclib::UniqueGuard<M>{*m, std::adopt_lock};
          } else {
            g = yaclib::UniqueGuard<M>{*m, std::try_to_lock};
          }
        } else {
          g = r.lock == kGuard ? co_await m->Guard() : m->TryGuard();
        }
        if (!g) {
          r.try_failed = true;
          if (r.guard_moves == 2) {
            // a refused try leaves a guard that does not own the lock: moving it around must not make anything own (and later release) it
            SIM_PROBE("not_owning_guard_moved");
            yaclib::UniqueGuard<M> moved{std::move(g)};
            if (moved.OwnsLock() || g.OwnsLock()) {
              sim::Fail("GUARD_NOT_OWNING", "after move-constructing from a guard that does not own the lock, one of the two guards claims to own it");
            }
          }
          if (r.lock == kGuard) {
            sim::Fail("GUARD_NOT_OWNING", "co_await Guard() returned a guard that does not own the lock");
          }
          break;
        }
        CRITICAL_SECTION();
        yaclib::UniqueGuard<M> g2;
        yaclib::UniqueGuard<M>* use = &g;
        if (r.guard_moves == 4) {
          // move-assignment swaps: the lock goes to the temporary, whose destructor releases it
          SIM_PROBE("guard_released_by_assignment");
          g = yaclib::UniqueGuard<M>{};
          if (g.OwnsLock()) {
            sim::Fail("GUARD_NOT_OWNING", "a guard still owns the lock after an empty guard was move-assigned into it");
          }
          break;
        }
        if (r.guard_moves == 1) {
          SIM_PROBE("guard_released_by_hand");
          M* released = g.Release();
          if (released != m || g.OwnsLock() || g.Mutex() != nullptr) {
            sim::Fail("GUARD_NOT_OWNING", "guard.Release() did not hand back the mutex / left the guard owning");
          }
          if (r.unlock == kUnlock) {
            co_await m->Unlock();
          } else if (r.unlock == kUnlockOn) {
            co_await m->UnlockOn(*e2);
            if (sim::CurrentExec() != static_cast<sim::Proxy*>(e2)->tag()) {
              sim::Fail("WRONG_EXECUTOR", "after UnlockOn(e2) coroutine %d is not running in e2", w);
            }
          } else {
            m->UnlockHere();
          }
          break;
        }
        if (r.guard_moves == 2) {
          SIM_PROBE("guard_move_constructed");
          yaclib::UniqueGuard<M> tmp{std::move(g)};
          g2.Swap(tmp);
          use = &g2;
        } else if (r.guard_moves == 3) {
          SIM_PROBE("guard_swapped");
          g2.Swap(g);
          use = &g2;
        }
        if (use == &g2 && (g.OwnsLock() || !g2.OwnsLock() || g2.Mutex() != m)) {
          sim::Fail("GUARD_NOT_OWNING", "after moving/swapping an owning guard the source still owns or the target does not");
        }
        if (r.unlock == kUnlock) {
          co_await use->Unlock();
        } else if (r.unlock == kUnlockOn) {
          co_await use->UnlockOn(*e2);
          if (sim::CurrentExec() != static_cast<sim::Proxy*>(e2)->tag()) {
            sim::Fail("WRONG_EXECUTOR", "after guard.UnlockOn(e2) coroutine %d is not running in e2", w);
          }
        } else if (r.unlock == kUnlockHere) {
          use->UnlockHere();
        }
      } break;
      default: {
        yaclib::IExecutor* home = &(co_await yaclib::CurrentExecutor());
        auto g = co_await m->GuardSticky();
        if (!g) {
          sim::Fail("GUARD_NOT_OWNING", "co_await GuardSticky() returned a guard that does not own the lock");
          break;
        }
        CRITICAL_SECTION();
        if (r.unlock == kUnlock) {
          // the sticky guard remembers the executor the coroutine was in when it asked for the lock and returns it there
          co_await g.Unlock();
          if (&(co_await yaclib::CurrentExecutor()) != home) {
            sim::Fail("WRONG_EXECUTOR", "after co_await stickyGuard.Unlock() CurrentExecutor() of coroutine %d is not the executor it had when it asked for the lock (had tag %d, has tag %d, runs in tag %d)", w,
                      static_cast<sim::Proxy*>(home)->tag(), static_cast<sim::Proxy*>(&(co_await yaclib::CurrentExecutor()))->tag(), sim::CurrentExec());
          } else if (sim::CurrentExec() != static_cast<sim::Proxy*>(home)->tag()) {
            sim::Fail("WRONG_EXECUTOR", "after co_await stickyGuard.Unlock() coroutine %d does not run in the executor it had when it asked for the lock (runs in tag %d)", w,
                      sim::CurrentExec());
          }
        }
      } break;
    }
  }
  if (frame_local.Read("coroutine frame local") != 7000U + static_cast<std::uint32_t>(w)) {
    sim::Fail("FRAME_CORRUPT", "coroutine %d: a local that lives across suspension points changed", w);
  }
  co_return {};
}

}  // namespace

SIM_HARNESS("C14", "c14_mutex", Case,
            "OVERLAP NOT_GRANTED NOT_FIFO LOST_UPDATE WRONG_EXECUTOR GUARD_NOT_OWNING COROUTINE_FAILED FRAME_CORRUPT DEADLOCK NO_PROGRESS JOB_LOST LEAK "
            "LEAK_OBJECT CRASH:*")
