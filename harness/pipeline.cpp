// PipeGen — generated pipelines interpreted over a closed table of step functions, against a sequential reference
// interpreter (DESIGN §3 C02, C03, C05, C12). One binary, several profiles:
//   c02  eager + lazy programs, live executors, no faults: final Result + invoked set/order/inputs
//   c05  eager programs, every executor behind a proxy, k-th submission rejected / pool stopped at a generated time:
//        Call xor Drop, placement, StopError routing
//   c12  lazy programs: nothing runs before start, every start mode, drop-unstarted, eager twin
//   c03  everything above plus handle drops; only release/ownership oracles matter (asan variant)
#include <sim/util.hpp>

#include <yaclib/async/contract.hpp>
#include <yaclib/async/future.hpp>
#include <yaclib/async/make.hpp>
#include <yaclib/async/promise.hpp>
#include <yaclib/async/run.hpp>
#include <yaclib/async/shared_contract.hpp>
#include <yaclib/async/shared_future.hpp>
#include <yaclib/async/wait.hpp>
#include <yaclib/coro/await.hpp>
#include <yaclib/coro/future.hpp>
#include <yaclib/coro/on.hpp>
#include <yaclib/coro/task.hpp>
#include <yaclib/exe/inline.hpp>
#include <yaclib/exe/manual.hpp>
#include <yaclib/exe/strand.hpp>
#include <yaclib/lazy/make.hpp>
#include <yaclib/lazy/schedule.hpp>
#include <yaclib/lazy/task.hpp>
#include <yaclib/runtime/fair_thread_pool.hpp>

#include <cstring>
#include <deque>
#include <utility>
#include <variant>
#include <vector>
#include <mutex>
#include <yaclib_std/condition_variable>
#include <yaclib_std/mutex>
#include <yaclib_std/thread>

namespace {

using sim::OKind;
using sim::Outcome;
using E = sim::SimError;
using T = sim::Tracked;
using yaclib::Unit;

template <typename V>
using Fut = yaclib::Future<V, E>;
template <typename V>
using FutOn = yaclib::FutureOn<V, E>;
template <typename V>
using Tsk = yaclib::Task<V, E>;
template <typename V>
using Res = yaclib::Result<V, E>;

enum class VT : std::uint8_t { Tr, Vo };
enum class Arg : std::uint8_t { Res, Val, Err, Exc, UnitArg, kCount };
enum class Ret : std::uint8_t { Val, Void, Res, ResVoid, Fut, FutVoid, Shared, Task, kCount };
enum class Attach : std::uint8_t { Inline, On, Inherit };

const char* kArgNames[] = {"Result&&", "value", "error", "exception_ptr", "Unit"};
const char* kRetNames[] = {"value", "void", "Result<T>", "Result<void>", "Future<T>", "Future<void>", "SharedFuture<T>", "Task<T>"};
const char* kAttachNames[] = {"ThenInline", "Then(e)", "Then()"};

constexpr bool IsRecovery(Arg a) {
  return a == Arg::Err || a == Arg::Exc;
}
constexpr VT OutVT(Ret r) {
  return (r == Ret::Void || r == Ret::ResVoid || r == Ret::FutVoid) ? VT::Vo : VT::Tr;
}
constexpr bool Valid(VT in, Arg a, Ret r) {
  if (a == Arg::UnitArg && in != VT::Vo) {
    return false;
  }
  if (IsRecovery(a)) {
    if (in == VT::Tr) {
      return r == Ret::Val || r == Ret::Res || r == Ret::Fut || r == Ret::Task;
    }
    return r == Ret::Void || r == Ret::ResVoid || r == Ret::FutVoid;
  }
  return true;
}

// behaviours, interpreted per Ret class (see Produce)
enum Beh : std::uint8_t {
  kPlain = 0,        // Val: value / Void: return / Res: ok / Fut: ready value / Shared: set before return / Task: MakeTask value
  kError = 1,        // Res: error / Fut: ready error / Shared: ready error / Task: MakeTask error
  kException = 2,    // Res: exception / Fut: ready exception
  kLaterValue = 3,   // Fut/Shared: fulfilled by a helper fiber later
  kLaterError = 4,
  kLaterDropped = 5, // promise dropped by the helper
  kRunOnExec = 6,    // Fut: Run(e, ...) / Task: Schedule(e, ...)   (Task: known-finding cell)
  kThrow = 7,        // the callback throws instead of returning
  kInnerStep = 8,    // Fut: ready future with its own ThenInline step / Task: MakeTask with a lazy ThenInline step
  kLazyContract = 9, // Task: LazyContract head (known-finding cell)
  kInnerInherit = 10, // Task: MakeTask(...).Then(f): the inner step inherits the inner head's (inline) executor, not the outer step's
};

struct Step {
  Arg arg = Arg::Res;
  Ret ret = Ret::Val;
  Attach attach = Attach::Inline;
  std::uint8_t exec = 0;        // for Attach::On
  std::uint8_t beh = 0;
  std::uint8_t inner_exec = 0;  // for kRunOnExec
  std::uint32_t id = 0;         // id of whatever this step produces
  bool drop_on = false;         // eager: the FutureOn this step returns is turned into a Future with .On(nullptr)
};

enum class Src : std::uint8_t {
  ReadyValue,
  ReadyError,
  ReadyException,
  ReadyVoid,
  ContractBefore,
  ContractLater,
  ContractOnLater,
  RunT,
  RunVoid,
  RunInline,
  RunAsync,
  CoroFuture,
  CoroFutureOn,
  AsyncContractNow,
  AsyncContractInline,
  AsyncContractLater,
  kEagerCount,
  // lazy
  TaskValue = 16,
  TaskError,
  TaskVoid,
  ScheduleT,
  ScheduleInline,
  ScheduleVoid,
  LazyContractNow,
  LazyContractLater,
  CoroTask,
  LazyContractOn,
  kLazyEnd
};
const char* SrcName(Src s) {
  switch (s) {
    case Src::ReadyValue: return "MakeFuture(value)";
    case Src::ReadyError: return "MakeFuture(error)";
    case Src::ReadyException: return "MakeFuture(exception)";
    case Src::ReadyVoid: return "MakeFuture<void>()";
    case Src::ContractBefore: return "contract fulfilled before building";
    case Src::ContractLater: return "contract fulfilled by another fiber";
    case Src::ContractOnLater: return "MakeContractOn(e) fulfilled by another fiber";
    case Src::RunT: return "Run(e, f->T)";
    case Src::RunVoid: return "Run(e, f->void)";
    case Src::RunInline: return "Run(f->T)";
    case Src::RunAsync: return "Run(e, f->Future<T>)";
    case Src::CoroFuture: return "coroutine returning Future<T>";
    case Src::CoroFutureOn: return "coroutine returning Future<T> after co_await On(e)";
    case Src::CoroTask: return "lazy coroutine returning Task<T>";
    case Src::AsyncContractNow: return "AsyncContract(e, f sets promise)";
    case Src::AsyncContractInline: return "AsyncContract(f sets promise)";
    case Src::AsyncContractLater: return "AsyncContract(e, f hands promise to another fiber)";
    case Src::LazyContractOn: return "LazyContract(e, f sets promise)";
    case Src::TaskValue: return "MakeTask(value)";
    case Src::TaskError: return "MakeTask(error)";
    case Src::TaskVoid: return "MakeTask<void>()";
    case Src::ScheduleT: return "Schedule(e, f->T)";
    case Src::ScheduleInline: return "Schedule(f->T)";
    case Src::ScheduleVoid: return "Schedule(e, f->void)";
    case Src::LazyContractNow: return "LazyContract(f sets promise)";
    case Src::LazyContractLater: return "LazyContract(f hands promise to another fiber)";
    default: return "?";
  }
}
// SetThrowsRef / SetThrowsVal (contract functions that fulfil inside f only): f calls Set(v) and constructing the value in the
// shared state throws. f took the promise by rvalue reference: the library still owns it and stores the exception; f took
// it by value: the parameter dies unset during unwinding (StopError) and the library must ignore the exception.
enum class SrcOut : std::uint8_t { Value, Error, Exception, Dropped, SetThrowsRef, SetThrowsVal };
const char* kSrcOutNames[] = {"value", "error", "exception", "dropped/throws", "Set(v) throws, f(Promise&&)", "Set(v) throws, f(Promise)"};
constexpr bool SetsInsideF(Src s) {
  return s == Src::AsyncContractNow || s == Src::AsyncContractInline || s == Src::LazyContractNow || s == Src::LazyContractOn;
}

enum class Sink : std::uint8_t { Get, WaitTouch, Detach, DetachInline, DetachOn, DetachInherit, kCount };
const char* kSinkNames[] = {"Get", "Wait+Touch", "Detach()", "DetachInline(f)", "Detach(e,f)", "FutureOn::Detach(f)"};
enum class Start : std::uint8_t { ToFutureGet, ToFutureOnGet, Get, Detach, DetachOn, AsInnerTask, DropUnstarted, CoAwait, AwaitKeep, AwaitTake, Cancel, Overwritten, kCount };
constexpr bool StartsThroughHere(Start s) {
  // the head is started by its consumer calling Here()/Next() on it (see the known finding D3)
  return s == Start::AsInnerTask || s == Start::CoAwait || s == Start::AwaitKeep || s == Start::AwaitTake;
}
const char* kStartNames[] = {"ToFuture().Get", "ToFuture(e).Get", "Get", "Detach()", "Detach(e)", "returned from an eager callback", "dropped unstarted",
                             "co_await in a coroutine", "co_await Await(task), Touch const&, destroy the completed task",
                             "co_await Await(task), Touch&&", "Cancel()", "overwritten unstarted by move-assignment (task = {})"};

// executors: index -> what the proxy wraps
enum Ex : std::uint8_t { kExInline = 0, kExPool = 1, kExStrand = 2, kExStopped = 3, kExPool2 = 4, kExManual = 5, kExCount = 6 };
const char* kExNames[] = {"inline", "pool", "strand(pool)", "stopped-inline", "pool2", "manual(drained by its own thread)"};

// ManualExecutor is single-threaded by contract: the client serialises Submit and Drain itself. Here the client is a
// recursive lock (jobs running inside Drain may submit to the same executor) plus a drainer thread woken per submission.
// The lock is a yaclib_std::mutex plus an owner/depth pair kept by the harness, because the happens-before engine of the
// race build observes yaclib_std::mutex only (the recursive flavour has no hook).
struct RecursiveLock {
  yaclib_std::mutex mx;
  int owner = -1, depth = 0;
  void lock() {
    const int me = sim::Fiber();
    if (owner == me) {
      ++depth;
      return;
    }
    mx.lock();
    owner = me;
    depth = 1;
  }
  void unlock() {
    if (--depth == 0) {
      owner = -1;
      mx.unlock();
    }
  }
};

struct LockedManual final : yaclib::IExecutor {
  yaclib::IExecutorPtr manual = yaclib::MakeManual();
  RecursiveLock rm;
  yaclib_std::mutex m;
  yaclib_std::condition_variable cv;
  bool pending = false, stop = false;
  std::uint64_t drained = 0;

  [[nodiscard]] Type Tag() const noexcept final {
    return manual->Tag();
  }
  [[nodiscard]] bool Alive() const noexcept final {
    return manual->Alive();
  }
  void IncRef() noexcept final {
  }
  void DecRef() noexcept final {
  }
  void Submit(yaclib::Job& job) noexcept final {
    {
      std::lock_guard l{rm};
      manual->Submit(job);
    }
    {
      std::lock_guard l{m};
      pending = true;
    }
    cv.notify_one();
  }
  void DrainNow() {
    std::lock_guard l{rm};
    drained += static_cast<yaclib::ManualExecutor&>(*manual).Drain();
  }
  void DrainLoop() {
    std::unique_lock l{m};
    for (;;) {
      while (!pending && !stop) {
        cv.wait(l);
      }
      if (!pending) {
        return;
      }
      pending = false;
      l.unlock();
      DrainNow();
      l.lock();
    }
  }
  void Stop() {
    {
      std::lock_guard l{m};
      stop = true;
    }
    cv.notify_one();
  }
};

struct Program {
  bool lazy = false;
  Src src = Src::ReadyValue;
  SrcOut src_out = SrcOut::Value;
  std::uint8_t src_exec = 0;
  std::uint32_t src_id = 1;
  std::vector<Step> steps;
  Sink sink = Sink::Get;
  std::uint8_t sink_exec = 0;
  Start start = Start::Get;
  std::uint8_t start_exec = 0;
  // faults
  int reject_exec = -1;
  int reject_from = 0;
  int stop_kind = 0;  // 0 none, 1 Stop, 2 HardStop, 3 SoftStop   (pool)
  std::uint32_t stop_at = 0;
  std::uint32_t pool_workers = 1;
  std::uint32_t build_sleep = 0;  // lazy: virtual ns the builder sleeps between building and starting
  bool drop_future_after_build = false;
  bool drop_by_assignment = false;  // the final future is released by `f = {}` instead of its destructor
};

struct Invocation {
  int step;  // -1: source function, -2: sink callback
  Outcome in;
  int exec;
  std::uint64_t seq;
};

// ===================================================================================================== the scenario
class Case final : public sim::CaseBase {
 public:
  // ------------------------------------------------------------------------------------------------- generation
  void Generate(sim::Gen& g) final {
    const char* prof = sim::Profile();
    profile = prof;
    const bool p02 = profile == "c02" || profile.empty();
    const bool p05 = profile == "c05";
    const bool p12 = profile == "c12";
    const bool p03 = profile == "c03";
    auto& p = prog;
    p.lazy = p12 ? true : (p05 ? false : g.Draw(3) == 2);
    const std::uint32_t max_len = sim::Thorough() ? 6 : 4;
    const std::uint32_t len = g.Draw(max_len + 1);
    p.pool_workers = 1 + g.Draw(2);
    VT vt;
    bool on;
    if (!p.lazy) {
      p.src = static_cast<Src>(g.Draw(static_cast<std::uint32_t>(Src::kEagerCount)));
    } else {
      p.src = static_cast<Src>(static_cast<std::uint32_t>(Src::TaskValue) +
                               g.Draw(static_cast<std::uint32_t>(Src::kLazyEnd) - static_cast<std::uint32_t>(Src::TaskValue)));
    }
    p.src_exec = LiveExec(g, p05 || p03);
    p.src_id = 1 + g.Noise(90);
    p.src_out = static_cast<SrcOut>(g.Draw(6));
    if (!SetsInsideF(p.src) && (p.src_out == SrcOut::SetThrowsRef || p.src_out == SrcOut::SetThrowsVal)) {
      p.src_out = SrcOut::Value;
    }
    switch (p.src) {
      case Src::ReadyValue: p.src_out = SrcOut::Value; vt = VT::Tr; on = false; break;
      case Src::ReadyError: p.src_out = SrcOut::Error; vt = VT::Tr; on = false; break;
      case Src::ReadyException: p.src_out = SrcOut::Exception; vt = VT::Tr; on = false; break;
      case Src::ReadyVoid: p.src_out = SrcOut::Value; vt = VT::Vo; on = false; break;
      case Src::ContractBefore:
      case Src::ContractLater: vt = VT::Tr; on = false; break;
      case Src::ContractOnLater: vt = VT::Tr; on = true; break;
      case Src::RunT: vt = VT::Tr; on = true; if (p.src_out == SrcOut::Error) p.src_out = SrcOut::Value; break;
      case Src::RunVoid: vt = VT::Vo; on = true; if (p.src_out == SrcOut::Error) p.src_out = SrcOut::Value; break;
      case Src::RunInline: vt = VT::Tr; on = false; if (p.src_out == SrcOut::Error) p.src_out = SrcOut::Value; break;
      case Src::RunAsync: vt = VT::Tr; on = true; break;
      case Src::CoroFuture:
      case Src::CoroFutureOn: vt = VT::Tr; on = false; if (p.src_out == SrcOut::Dropped) p.src_out = SrcOut::Exception; break;
      case Src::CoroTask: vt = VT::Tr; on = true; if (p.src_out == SrcOut::Dropped) p.src_out = SrcOut::Exception; break;
      case Src::AsyncContractNow:
      case Src::AsyncContractLater: vt = VT::Tr; on = true; break;
      case Src::AsyncContractInline: vt = VT::Tr; on = false; break;
      case Src::TaskValue: p.src_out = SrcOut::Value; vt = VT::Tr; on = true; break;
      case Src::TaskError: p.src_out = SrcOut::Error; vt = VT::Tr; on = true; break;
      case Src::TaskVoid: p.src_out = SrcOut::Value; vt = VT::Vo; on = true; break;
      case Src::ScheduleT:
      case Src::ScheduleInline: vt = VT::Tr; on = true; if (p.src_out == SrcOut::Error) p.src_out = SrcOut::Value; break;
      case Src::ScheduleVoid: vt = VT::Vo; on = true; if (p.src_out == SrcOut::Error) p.src_out = SrcOut::Value; break;
      default: vt = VT::Tr; on = true; break;  // LazyContract*
    }
    if (p.src == Src::RunInline || p.src == Src::ScheduleInline || p.src == Src::TaskValue || p.src == Src::TaskError || p.src == Src::TaskVoid ||
        p.src == Src::LazyContractNow || p.src == Src::LazyContractLater || p.src == Src::CoroFuture || p.src == Src::CoroTask ||
        p.src == Src::AsyncContractInline) {
      p.src_exec = kExInline;  // these sources carry the library's own inline executor, not a proxy
      src_proxied = false;
    }
    for (std::uint32_t i = 0; i < len; ++i) {
      Step s;
      // argument class valid for the current value type
      for (;;) {
        s.arg = static_cast<Arg>(g.Draw(static_cast<std::uint32_t>(Arg::kCount)));
        if (s.arg != Arg::UnitArg || vt == VT::Vo) {
          break;
        }
        s.arg = Arg::Res;
        break;
      }
      // return class valid for (vt, arg)
      std::uint32_t r = g.Draw(static_cast<std::uint32_t>(Ret::kCount));
      for (std::uint32_t k = 0; k < static_cast<std::uint32_t>(Ret::kCount); ++k) {
        const auto cand = static_cast<Ret>((r + k) % static_cast<std::uint32_t>(Ret::kCount));
        if (Valid(vt, s.arg, cand)) {
          s.ret = cand;
          break;
        }
      }
      const std::uint32_t a = g.Draw(on || p.lazy ? 3 : 2);
      s.attach = static_cast<Attach>(a);
      s.exec = AnyExec(g, p05 || p03 || p12);
      s.beh = DrawBeh(g, s.ret);
      s.inner_exec = LiveExec(g, true);
      s.id = 100 * (i + 1) + g.Noise(90);
      p.steps.push_back(s);
      vt = OutVT(s.ret);
      if (!p.lazy) {
        if (s.attach != Attach::Inline) {
          on = true;
        }
        if (on && g.Draw(6) == 5) {
          p.steps.back().drop_on = true;
          on = false;
        }
      }
    }
    final_vt = vt;
    if (!p.lazy) {
      p.sink = static_cast<Sink>(g.Draw(static_cast<std::uint32_t>(Sink::kCount)));
      p.sink_exec = AnyExec(g, p05 || p03);
      if (p.sink == Sink::DetachInherit && !on) {
        p.sink = Sink::DetachInline;  // only a FutureOn has Detach(f)
      }
      if (p03) {
        p.drop_future_after_build = g.Draw(6) == 5;
        p.drop_by_assignment = p.drop_future_after_build && g.Flip();
      }
    } else {
      p.start = static_cast<Start>(g.Draw(static_cast<std::uint32_t>(Start::kCount)));
      p.start_exec = AnyExec(g, p05 || p03 || p12);
      p.build_sleep = g.Draw(3) * 400;
    }
    if (p05 || p03) {
      const std::uint32_t f = g.Draw(4);
      if (f == 1) {
        p.reject_exec = static_cast<int>(g.Draw(kExCount));
        p.reject_from = static_cast<int>(g.Draw(6));
      } else if (f == 2) {
        p.stop_kind = 1 + static_cast<int>(g.Draw(3));
        p.stop_at = g.Draw(40) * 20;
      }
    }
    (void)p02;
    if (p05 || p03 || p.reject_exec >= 0 || p.stop_kind != 0 || p.drop_future_after_build) {
      // generated faults are never combined with the known-finding cell, so that its matcher stays exact; the finding
      // is owned by C02 and C12 only (profiles c05/c03 never generate the cell)
      for (auto& s : p.steps) {
        if (s.ret == Ret::Task && (s.beh == kRunOnExec || s.beh == kLazyContract)) {
          s.beh = kPlain;
        }
      }
      if (p.lazy && StartsThroughHere(p.start)) {
        p.start = Start::Get;
      }
    }
  }

  static std::uint8_t LiveExec(sim::Gen& g, bool wide) {
    static const std::uint8_t narrow[] = {kExInline, kExPool, kExStrand};
    static const std::uint8_t all[] = {kExInline, kExPool, kExStrand, kExPool2, kExManual};
    return wide ? all[g.Draw(5)] : narrow[g.Draw(3)];
  }
  static std::uint8_t AnyExec(sim::Gen& g, bool with_stopped) {
    static const std::uint8_t all[] = {kExInline, kExPool, kExStrand, kExPool2, kExManual, kExStopped};
    return all[g.Draw(with_stopped ? 6 : 3)];
  }
  static std::uint8_t DrawBeh(sim::Gen& g, Ret r) {
    switch (r) {
      case Ret::Val:
      case Ret::Void: {
        return g.Draw(5) == 4 ? kThrow : kPlain;
      }
      case Ret::Res:
      case Ret::ResVoid: {
        static const std::uint8_t b[] = {kPlain, kError, kException, kThrow};
        return b[g.Draw(4)];
      }
      case Ret::Fut: {
        static const std::uint8_t b[] = {kPlain, kError, kException, kLaterValue, kLaterError, kLaterDropped, kRunOnExec, kThrow, kInnerStep};
        return b[g.Draw(9)];
      }
      case Ret::FutVoid: {
        static const std::uint8_t b[] = {kPlain, kError, kLaterValue, kLaterDropped, kThrow};
        return b[g.Draw(5)];
      }
      case Ret::Shared: {
        static const std::uint8_t b[] = {kPlain, kError, kLaterValue, kLaterError, kLaterDropped, kThrow};
        return b[g.Draw(6)];
      }
      default: {
        // the last two are the known-finding cell (DESIGN §5 D3): sampled, but rarely
        static const std::uint8_t b[] = {kPlain, kError, kInnerStep, kThrow, kInnerInherit, kError, kInnerStep, kThrow, kPlain, kInnerInherit,
                                         kInnerStep, kThrow, kInnerInherit, kInnerStep, kRunOnExec, kLazyContract};
        return b[g.Draw(16)];
      }
    }
  }

  // Known-finding cell (DESIGN §5 D3): a Task whose head was built by Schedule/LazyContract is started through
  // Here()/Next() when it is returned from a callback, which those heads do not implement. The matcher is exact: the
  // offending callback must actually be invoked according to the reference model (faults are never combined with it).
  const char* Known() const final {
    static const char* kKey = "inner-task-head-schedule-or-lazycontract";
    if (prog.lazy && StartsThroughHere(prog.start)) {
      const Src s = prog.src;
      if (s == Src::ScheduleT || s == Src::ScheduleInline || s == Src::ScheduleVoid || s == Src::LazyContractNow || s == Src::LazyContractLater ||
          s == Src::LazyContractOn) {
        return kKey;
      }
    }
    bool any = false;
    for (auto& s : prog.steps) {
      any = any || (s.ret == Ret::Task && (s.beh == kRunOnExec || s.beh == kLazyContract));
    }
    if (!any) {
      return nullptr;
    }
    Case* self = const_cast<Case*>(this);
    self->static_model = true;
    const Model m = self->RunModel();
    self->static_model = false;
    for (auto& inv : m.invoked) {
      if (inv.step >= 0) {
        const Step& s = prog.steps[static_cast<std::size_t>(inv.step)];
        if (s.ret == Ret::Task && (s.beh == kRunOnExec || s.beh == kLazyContract)) {
          return kKey;
        }
      }
    }
    return nullptr;
  }

  void Describe(sim::Json& j) const final {
    const auto& p = prog;
    j.KV("profile", profile);
    j.KV("form", p.lazy ? "lazy" : "eager");
    j.KV("source", SrcName(p.src)).KV("source_outcome", kSrcOutNames[static_cast<int>(p.src_out)]).KV("source_exec", kExNames[p.src_exec]);
    j.Key("steps").Arr();
    for (auto& s : p.steps) {
      j.Obj().KV("attach", kAttachNames[static_cast<int>(s.attach)]);
      if (s.attach == Attach::On) {
        j.KV("exec", kExNames[s.exec]);
      }
      j.KV("takes", kArgNames[static_cast<int>(s.arg)]).KV("returns", kRetNames[static_cast<int>(s.ret)]).KV("behaviour", static_cast<int>(s.beh));
      if (s.drop_on) {
        j.KV("then", ".On(nullptr)");
      }
      if (s.beh == kRunOnExec) {
        j.KV("inner_exec", kExNames[s.inner_exec]);
      }
      j.End();
    }
    j.EndArr();
    if (!p.lazy) {
      j.KV("sink", kSinkNames[static_cast<int>(p.sink)]);
      if (p.sink == Sink::DetachOn) {
        j.KV("sink_exec", kExNames[p.sink_exec]);
      }
      if (p.drop_future_after_build) {
        j.KV("fault", p.drop_by_assignment ? "final future released by move-assignment (f = {})" : "final future dropped");
      }
    } else {
      j.KV("start", kStartNames[static_cast<int>(p.start)]);
      if (p.start == Start::ToFutureOnGet || p.start == Start::DetachOn) {
        j.KV("start_exec", kExNames[p.start_exec]);
      }
      j.KV("build_sleep_ns", p.build_sleep);
    }
    if (p.reject_exec >= 0) {
      j.KV("reject_executor", kExNames[p.reject_exec]).KV("reject_from_submission", p.reject_from);
    }
    if (p.stop_kind != 0) {
      static const char* names[] = {"", "Stop", "HardStop", "SoftStop"};
      j.KV("pool_stop", names[p.stop_kind]).KV("pool_stop_at_ns", p.stop_at);
    }
    j.KV("pool_workers", p.pool_workers);
  }

  // ------------------------------------------------------------------------------------------------- run-time context
  sim::Proxy* proxies[kExCount] = {};
  std::deque<yaclib_std::thread> helpers;
  std::vector<Invocation> log;
  std::uint64_t start_invoke = 0;  // lazy: seq just before the start call (0 = not started yet)
  bool started = false;
  Outcome final_out;
  bool have_final = false;
  VT final_vt = VT::Tr;
  Program prog;
  std::string profile;
  bool src_proxied = true;
  // bookkeeping for the end-of-run oracle (copied out of the proxies before they die)
  std::vector<std::vector<sim::JobRecord>> job_records;
  std::uint64_t submissions_before_start = 0;
  std::uint64_t log_before_start = 0;

  yaclib::IExecutor& Exec(std::uint8_t i) {
    return *proxies[i];
  }

  void LogInvoke(int step, Outcome in) {
    log.push_back(Invocation{step, in, sim::CurrentExec(), sim::Seq()});
  }

  template <typename Fn>
  void Later(Fn&& fn) {
    helpers.emplace_back(std::forward<Fn>(fn));
  }

  // ------------------------------------------------------------------------------------------------- producing values
  // What the source function / an inner Run does (value or throw)
  T SourceValue(std::uint32_t id, SrcOut out) {
    if (out == SrcOut::Exception || out == SrcOut::Dropped) {
      throw sim::TaggedEx{id};
    }
    return T{id};
  }

  template <Ret R>
  auto Produce(int idx) {
    const Step& s = prog.steps[static_cast<std::size_t>(idx)];
    const std::uint32_t id = s.id;
    if (s.beh == kThrow) {
      throw sim::TaggedEx{id};
    }
    if constexpr (R == Ret::Val) {
      return T{id};
    } else if constexpr (R == Ret::Void) {
      return;
    } else if constexpr (R == Ret::Res) {
      if (s.beh == kError) {
        return Res<T>{E{id}};
      }
      if (s.beh == kException) {
        return Res<T>{sim::MakeEx(id)};
      }
      return Res<T>{T{id}};
    } else if constexpr (R == Ret::ResVoid) {
      if (s.beh == kError) {
        return Res<void>{E{id}};
      }
      if (s.beh == kException) {
        return Res<void>{sim::MakeEx(id)};
      }
      return Res<void>{Unit{}};
    } else if constexpr (R == Ret::Fut) {
      switch (s.beh) {
        case kError:
          return Fut<T>{yaclib::MakeFuture<T, E>(E{id})};
        case kException:
          return Fut<T>{yaclib::MakeFuture<T, E>(sim::MakeEx(id))};
        case kLaterValue:
        case kLaterError:
        case kLaterDropped: {
          auto [f, p] = yaclib::MakeContract<T, E>();
          Later([this, beh = s.beh, id, pp = std::move(p)]() mutable {
            sim::Yield();
            FulfilLater(std::move(pp), beh, id);
          });
          return std::move(f);
        }
        case kRunOnExec:
          return Fut<T>{yaclib::Run<E>(Exec(s.inner_exec), [id] {
                          return T{id};
                        }).On(nullptr)};
        case kInnerStep:
          return Fut<T>{yaclib::MakeFuture<T, E>(T{id + 7}).ThenInline([id](T&& v) {
            (void)v.Read("inner ThenInline step");
            return T{id};
          })};
        default:
          return Fut<T>{yaclib::MakeFuture<T, E>(T{id})};
      }
    } else if constexpr (R == Ret::FutVoid) {
      switch (s.beh) {
        case kError:
          return Fut<void>{yaclib::MakeFuture<void, E>(E{id})};
        case kLaterValue:
        case kLaterDropped: {
          auto [f, p] = yaclib::MakeContract<void, E>();
          Later([beh = s.beh, pp = std::move(p)]() mutable {
            sim::Yield();
            if (beh == kLaterValue) {
              std::move(pp).Set();
            } else {
              SIM_FAULT("promise_dropped");
              auto dead = std::move(pp);
              (void)dead;
            }
          });
          return std::move(f);
        }
        default:
          return Fut<void>{yaclib::MakeFuture<Unit, E>()};
      }
    } else if constexpr (R == Ret::Shared) {
      auto [f, p] = yaclib::MakeSharedContract<T, E>();
      switch (s.beh) {
        case kError:
          std::move(p).Set(E{id});
          break;
        case kLaterValue:
        case kLaterError:
        case kLaterDropped:
          Later([beh = s.beh, id, pp = std::move(p)]() mutable {
            sim::Yield();
            if (beh == kLaterValue) {
              std::move(pp).Set(T{id});
            } else if (beh == kLaterError) {
              std::move(pp).Set(E{id});
            } else {
              SIM_FAULT("promise_dropped");
              auto dead = std::move(pp);
              (void)dead;
            }
          });
          break;
        default:
          std::move(p).Set(T{id});
          break;
      }
      return std::move(f);
    } else {
      static_assert(R == Ret::Task);
      switch (s.beh) {
        case kError:
          return Tsk<T>{yaclib::MakeTask<T, E>(E{id})};
        case kInnerStep:
          return Tsk<T>{yaclib::MakeTask<T, E>(T{id + 7}).ThenInline([id](T&& v) {
            (void)v.Read("inner lazy ThenInline step");
            return T{id};
          })};
        case kInnerInherit:
          return Tsk<T>{yaclib::MakeTask<T, E>(T{id + 7}).Then([id](T&& v) {
            (void)v.Read("inner lazy Then(f) step");
            return T{id};
          })};
        case kRunOnExec:
          return Tsk<T>{yaclib::Schedule<E>(Exec(s.inner_exec), [id] {
            return T{id};
          })};
        case kLazyContract:
          return Tsk<T>{yaclib::LazyContract<T, E>([id](yaclib::Promise<T, E> p) {
            std::move(p).Set(T{id});
          })};
        default:
          return Tsk<T>{yaclib::MakeTask<T, E>(T{id})};
      }
    }
  }

  void FulfilLater(yaclib::Promise<T, E> p, std::uint8_t beh, std::uint32_t id) {
    if (beh == kLaterValue) {
      std::move(p).Set(T{id});
    } else if (beh == kLaterError) {
      std::move(p).Set(E{id});
    } else {
      SIM_FAULT("promise_dropped");
      auto dead = std::move(p);
      (void)dead;
    }
  }

  // ------------------------------------------------------------------------------------------------- callbacks
  template <VT In, Arg A, Ret R>
  struct Cb {
    Case* c;
    int idx;
    T cap;

    auto Go(Outcome in) {
      if (cap.Read("callback capture") != 9000U + static_cast<std::uint32_t>(idx)) {
        sim::Fail("FUNCTOR_DEAD", "step %d: functor capture not intact at invocation", idx);
      }
      c->LogInvoke(idx, in);
      return c->template Produce<R>(idx);
    }

    // exactly one call operator per (In, A)
    template <VT I = In, Arg AA = A, std::enable_if_t<I == VT::Tr && AA == Arg::Res, int> = 0>
    auto operator()(Res<T>&& r) {
      return Go(sim::Observe(r, "step callback (Result&&)"));
    }
    template <VT I = In, Arg AA = A, std::enable_if_t<I == VT::Vo && AA == Arg::Res, int> = 0>
    auto operator()(Res<void>&& r) {
      return Go(sim::Observe(r, "step callback (Result<void>&&)"));
    }
    template <VT I = In, Arg AA = A, std::enable_if_t<I == VT::Tr && AA == Arg::Val, int> = 0>
    auto operator()(T v) {
      const std::uint32_t id = v.Read("step callback (value)");
      return Go(id == 0xFFFFFFFFU ? Outcome{OKind::Bad, 9} : Outcome{OKind::Value, id});
    }
    template <VT I = In, Arg AA = A, std::enable_if_t<I == VT::Vo && AA == Arg::Val, int> = 0>
    auto operator()() {
      return Go(Outcome{OKind::Value, 0});
    }
    template <VT I = In, Arg AA = A, std::enable_if_t<I == VT::Vo && AA == Arg::UnitArg, int> = 0>
    auto operator()(Unit) {
      return Go(Outcome{OKind::Value, 0});
    }
    template <Arg AA = A, std::enable_if_t<AA == Arg::Err, int> = 0>
    auto operator()(E e) {
      return Go(sim::OutcomeOfErr(e, "step callback (error)"));
    }
    template <Arg AA = A, std::enable_if_t<AA == Arg::Exc, int> = 0>
    auto operator()(std::exception_ptr ep) {
      return Go(sim::OutcomeOfEx(ep));
    }
  };

  // the carrier of the pipeline between steps
  using Carrier = std::variant<std::monostate, Fut<T>, FutOn<T>, Fut<void>, FutOn<void>, Tsk<T>, Tsk<void>>;
  Carrier car;

  template <VT In, Arg A, Ret R, typename F>
  void AttachT(F&& f, const Step& s, int idx) {
    if constexpr (!Valid(In, A, R)) {
      sim::Fail("HARNESS", "invalid step combination generated");
    } else {
      Cb<In, A, R> cb{this, idx, T{9000U + static_cast<std::uint32_t>(idx)}};
      using FT = std::decay_t<F>;
      constexpr bool kIsOn = std::is_same_v<FT, FutOn<T>> || std::is_same_v<FT, FutOn<void>>;
      constexpr bool kIsTask = std::is_same_v<FT, Tsk<T>> || std::is_same_v<FT, Tsk<void>>;
      switch (s.attach) {
        case Attach::Inline:
          car = std::move(f).ThenInline(std::move(cb));
          break;
        case Attach::On:
          car = std::move(f).Then(Exec(s.exec), std::move(cb));
          break;
        default:
          if constexpr (kIsOn || kIsTask) {
            car = std::move(f).Then(std::move(cb));
          } else {
            sim::Fail("HARNESS", "Then() generated for a plain Future");
          }
          break;
      }
    }
  }

  template <VT In, Arg A, typename F>
  void AttachR(F&& f, const Step& s, int idx) {
    switch (s.ret) {
      case Ret::Val: AttachT<In, A, Ret::Val>(std::forward<F>(f), s, idx); break;
      case Ret::Void: AttachT<In, A, Ret::Void>(std::forward<F>(f), s, idx); break;
      case Ret::Res: AttachT<In, A, Ret::Res>(std::forward<F>(f), s, idx); break;
      case Ret::ResVoid: AttachT<In, A, Ret::ResVoid>(std::forward<F>(f), s, idx); break;
      case Ret::Fut: AttachT<In, A, Ret::Fut>(std::forward<F>(f), s, idx); break;
      case Ret::FutVoid: AttachT<In, A, Ret::FutVoid>(std::forward<F>(f), s, idx); break;
      case Ret::Shared: AttachT<In, A, Ret::Shared>(std::forward<F>(f), s, idx); break;
      default: AttachT<In, A, Ret::Task>(std::forward<F>(f), s, idx); break;
    }
  }

  template <VT In, typename F>
  void AttachA(F&& f, const Step& s, int idx) {
    switch (s.arg) {
      case Arg::Res: AttachR<In, Arg::Res>(std::forward<F>(f), s, idx); break;
      case Arg::Val: AttachR<In, Arg::Val>(std::forward<F>(f), s, idx); break;
      case Arg::Err: AttachR<In, Arg::Err>(std::forward<F>(f), s, idx); break;
      case Arg::Exc: AttachR<In, Arg::Exc>(std::forward<F>(f), s, idx); break;
      default:
        if constexpr (In == VT::Vo) {
          AttachR<In, Arg::UnitArg>(std::forward<F>(f), s, idx);
        }
        break;
    }
  }

  void ApplyStep(const Step& s, int idx) {
    ApplyStepImpl(s, idx);
    if (s.drop_on) {
      if (car.index() == 2) {
        car = std::get<2>(std::move(car)).On(nullptr);
      } else if (car.index() == 4) {
        car = std::get<4>(std::move(car)).On(nullptr);
      }
    }
  }

  void ApplyStepImpl(const Step& s, int idx) {
    Carrier cur = std::move(car);
    car = std::monostate{};
    switch (cur.index()) {
      case 1: AttachA<VT::Tr>(std::get<1>(std::move(cur)), s, idx); break;
      case 2: AttachA<VT::Tr>(std::get<2>(std::move(cur)), s, idx); break;
      case 3: AttachA<VT::Vo>(std::get<3>(std::move(cur)), s, idx); break;
      case 4: AttachA<VT::Vo>(std::get<4>(std::move(cur)), s, idx); break;
      case 5: AttachA<VT::Tr>(std::get<5>(std::move(cur)), s, idx); break;
      case 6: AttachA<VT::Vo>(std::get<6>(std::move(cur)), s, idx); break;
      default: sim::Fail("HARNESS", "empty carrier"); break;
    }
  }

  // ------------------------------------------------------------------------------------------------- sources
  // fulfilment inside a contract function; Set may throw while it constructs the value in the shared state
  void SetInsideRef(yaclib::Promise<T, E>&& p) {
    if (prog.src_out == SrcOut::SetThrowsRef) {
      SIM_FAULT("value_construction_throws_in_set");
      std::move(p).Set(sim::Bomb{prog.src_id});
      sim::Fail("HARNESS", "Set(Bomb) did not throw");
    }
    SetPromise(std::move(p));
  }
  void SetInsideVal(yaclib::Promise<T, E> p) {
    SIM_FAULT("value_construction_throws_in_set");
    std::move(p).Set(sim::Bomb{prog.src_id});
    sim::Fail("HARNESS", "Set(Bomb) did not throw");
  }

  void SetPromise(yaclib::Promise<T, E> p) {
    switch (prog.src_out) {
      case SrcOut::Value: std::move(p).Set(T{prog.src_id}); break;
      case SrcOut::Error: std::move(p).Set(E{prog.src_id}); break;
      case SrcOut::Exception: std::move(p).Set(sim::MakeEx(prog.src_id)); break;
      default: {
        SIM_FAULT("promise_dropped");
        auto dead = std::move(p);
        (void)dead;
      } break;
    }
  }

  // a coroutine as the source of the pipeline: eager (Future) or lazy (Task); optionally hops to an executor first
  template <typename R>
  static R CoroSource(Case* c, std::uint32_t id, int exec) {
    T frame_local{id + 50000};
    c->LogInvoke(-1, Outcome{});
    if (exec >= 0) {
      co_await yaclib::On(c->Exec(static_cast<std::uint8_t>(exec)));
    }
    (void)frame_local.Read("coroutine frame local");
    if (c->prog.src_out == SrcOut::Exception) {
      throw sim::TaggedEx{id};
    }
    if (c->prog.src_out == SrcOut::Error) {
      co_return E{id};
    }
    co_return T{id};
  }

  void MakeSource() {
    const auto& p = prog;
    const std::uint32_t id = p.src_id;
    switch (p.src) {
      case Src::ReadyValue: car = yaclib::MakeFuture<T, E>(T{id}); break;
      case Src::ReadyError: car = yaclib::MakeFuture<T, E>(E{id}); break;
      case Src::ReadyException: car = yaclib::MakeFuture<T, E>(sim::MakeEx(id)); break;
      case Src::ReadyVoid: car = yaclib::MakeFuture<Unit, E>(); break;
      case Src::ContractBefore: {
        auto [f, pr] = yaclib::MakeContract<T, E>();
        SetPromise(std::move(pr));
        car = std::move(f);
      } break;
      case Src::ContractLater: {
        auto [f, pr] = yaclib::MakeContract<T, E>();
        Later([this, pp = std::move(pr)]() mutable {
          SetPromise(std::move(pp));
        });
        car = std::move(f);
      } break;
      case Src::ContractOnLater: {
        auto [f, pr] = yaclib::MakeContractOn<T, E>(Exec(p.src_exec));
        Later([this, pp = std::move(pr)]() mutable {
          SetPromise(std::move(pp));
        });
        car = std::move(f);
      } break;
      case Src::RunT:
        car = yaclib::Run<E>(Exec(p.src_exec), [this, id, cap = T{7777}] {
          LogInvoke(-1, Outcome{});
          (void)cap.Read("source functor capture");
          return SourceValue(id, prog.src_out);
        });
        break;
      case Src::RunVoid:
        car = yaclib::Run<E>(Exec(p.src_exec), [this, id, cap = T{7777}] {
          LogInvoke(-1, Outcome{});
          (void)cap.Read("source functor capture");
          (void)SourceValue(id, prog.src_out);
        });
        break;
      case Src::RunInline:
        car = yaclib::Run<E>([this, id, cap = T{7777}] {
          LogInvoke(-1, Outcome{});
          (void)cap.Read("source functor capture");
          return SourceValue(id, prog.src_out);
        });
        break;
      case Src::RunAsync:
        car = yaclib::Run<E>(Exec(p.src_exec), [this, id, cap = T{7777}] {
          LogInvoke(-1, Outcome{});
          (void)cap.Read("source functor capture");
          if (prog.src_out == SrcOut::Exception) {
            throw sim::TaggedEx{id};
          }
          if (prog.src_out == SrcOut::Error) {
            return Fut<T>{yaclib::MakeFuture<T, E>(E{id})};
          }
          auto [f, pr] = yaclib::MakeContract<T, E>();
          Later([this, pp = std::move(pr)]() mutable {
            sim::Yield();
            SetPromise(std::move(pp));
          });
          return std::move(f);
        });
        break;
      case Src::CoroFuture: car = CoroSource<Fut<T>>(this, id, -1); break;
      case Src::CoroFutureOn: car = CoroSource<Fut<T>>(this, id, p.src_exec); break;
      case Src::CoroTask: car = CoroSource<Tsk<T>>(this, id, -1); break;
      case Src::TaskValue: car = yaclib::MakeTask<T, E>(T{id}); break;
      case Src::TaskError: car = yaclib::MakeTask<T, E>(E{id}); break;
      case Src::TaskVoid: car = yaclib::MakeTask<Unit, E>(); break;
      case Src::ScheduleT:
        car = yaclib::Schedule<E>(Exec(p.src_exec), [this, id, cap = T{7777}] {
          LogInvoke(-1, Outcome{});
          (void)cap.Read("source functor capture");
          return SourceValue(id, prog.src_out);
        });
        break;
      case Src::ScheduleInline:
        car = yaclib::Schedule<E>([this, id, cap = T{7777}] {
          LogInvoke(-1, Outcome{});
          (void)cap.Read("source functor capture");
          return SourceValue(id, prog.src_out);
        });
        break;
      case Src::ScheduleVoid:
        car = yaclib::Schedule<E>(Exec(p.src_exec), [this, id, cap = T{7777}] {
          LogInvoke(-1, Outcome{});
          (void)cap.Read("source functor capture");
          (void)SourceValue(id, prog.src_out);
        });
        break;
      case Src::LazyContractNow:
        if (p.src_out == SrcOut::SetThrowsVal) {
          car = yaclib::LazyContract<T, E>([this, cap = T{7777}](yaclib::Promise<T, E> pr) {
            LogInvoke(-1, Outcome{});
          (void)cap.Read("source functor capture");
            SetInsideVal(std::move(pr));
          });
        } else {
          car = yaclib::LazyContract<T, E>([this, cap = T{7777}](yaclib::Promise<T, E>&& pr) {
            LogInvoke(-1, Outcome{});
          (void)cap.Read("source functor capture");
            SetInsideRef(std::move(pr));
          });
        }
        break;
      case Src::LazyContractOn:
        if (p.src_out == SrcOut::SetThrowsVal) {
          car = yaclib::LazyContract<T, E>(Exec(p.src_exec), [this, cap = T{7777}](yaclib::Promise<T, E> pr) {
            LogInvoke(-1, Outcome{});
          (void)cap.Read("source functor capture");
            SetInsideVal(std::move(pr));
          });
        } else {
          car = yaclib::LazyContract<T, E>(Exec(p.src_exec), [this, cap = T{7777}](yaclib::Promise<T, E>&& pr) {
            LogInvoke(-1, Outcome{});
          (void)cap.Read("source functor capture");
            SetInsideRef(std::move(pr));
          });
        }
        break;
      case Src::AsyncContractNow:
        if (p.src_out == SrcOut::SetThrowsVal) {
          car = yaclib::AsyncContract<T, E>(Exec(p.src_exec), [this, cap = T{7777}](yaclib::Promise<T, E> pr) {
            LogInvoke(-1, Outcome{});
          (void)cap.Read("source functor capture");
            SetInsideVal(std::move(pr));
          });
        } else {
          car = yaclib::AsyncContract<T, E>(Exec(p.src_exec), [this, cap = T{7777}](yaclib::Promise<T, E>&& pr) {
            LogInvoke(-1, Outcome{});
          (void)cap.Read("source functor capture");
            SetInsideRef(std::move(pr));
          });
        }
        break;
      case Src::AsyncContractInline:
        if (p.src_out == SrcOut::SetThrowsVal) {
          car = yaclib::AsyncContract<T, E>([this, cap = T{7777}](yaclib::Promise<T, E> pr) {
            LogInvoke(-1, Outcome{});
          (void)cap.Read("source functor capture");
            SetInsideVal(std::move(pr));
          });
        } else {
          car = yaclib::AsyncContract<T, E>([this, cap = T{7777}](yaclib::Promise<T, E>&& pr) {
            LogInvoke(-1, Outcome{});
          (void)cap.Read("source functor capture");
            SetInsideRef(std::move(pr));
          });
        }
        break;
      case Src::AsyncContractLater:
        car = yaclib::AsyncContract<T, E>(Exec(p.src_exec), [this, cap = T{7777}](yaclib::Promise<T, E> pr) {
          LogInvoke(-1, Outcome{});
          (void)cap.Read("source functor capture");
          Later([this, pp = std::move(pr)]() mutable {
            sim::Yield();
            SetPromise(std::move(pp));
          });
        });
        break;
      case Src::LazyContractLater:
        car = yaclib::LazyContract<T, E>([this, cap = T{7777}](yaclib::Promise<T, E> pr) {
          LogInvoke(-1, Outcome{});
          (void)cap.Read("source functor capture");
          Later([this, pp = std::move(pr)]() mutable {
            sim::Yield();
            SetPromise(std::move(pp));
          });
        });
        break;
      default: sim::Fail("HARNESS", "bad source"); break;
    }
  }

  // ------------------------------------------------------------------------------------------------- sinks / starts
  template <typename V>
  void Final(Res<V>&& r, const char* who) {
    final_out = sim::Observe(r, who);
    have_final = true;
  }

  template <typename F>
  void EagerSink(F f) {
    using V = std::conditional_t<std::is_same_v<F, Fut<T>> || std::is_same_v<F, FutOn<T>>, T, void>;
    if (prog.drop_future_after_build) {
      SIM_FAULT("future_dropped");
      if (prog.drop_by_assignment) {
        f = F{};  // move-assignment swaps, the temporary's destructor detaches
      } else {
        auto dead = std::move(f);
        (void)dead;
      }
      return;
    }
    switch (prog.sink) {
      case Sink::Get:
        Final<V>(std::move(f).Get(), "Get");
        break;
      case Sink::WaitTouch:
        yaclib::Wait(f);
        if (!f.Ready()) {
          sim::Fail("WAIT_NOT_READY", "Wait returned but the future is not Ready");
        }
        Final<V>(std::move(f).Touch(), "Touch after Wait");
        break;
      case Sink::Detach:
        std::move(f).Detach();
        break;
      case Sink::DetachInline:
        std::move(f).DetachInline([this, cap = T{8888}](Res<V>&& r) {
          (void)cap.Read("sink capture");
          LogInvoke(-2, sim::Observe(r, "DetachInline sink"));
          Final<V>(std::move(r), "DetachInline sink");
        });
        break;
      case Sink::DetachInherit:
        if constexpr (std::is_same_v<F, FutOn<T>> || std::is_same_v<F, FutOn<void>>) {
          std::move(f).Detach([this, cap = T{8888}](Res<V>&& r) {
            (void)cap.Read("sink capture");
            LogInvoke(-2, sim::Observe(r, "FutureOn::Detach(f) sink"));
            Final<V>(std::move(r), "FutureOn::Detach(f) sink");
          });
        } else {
          sim::Fail("HARNESS", "Detach(f) generated for a plain Future");
        }
        break;
      default:
        std::move(f).Detach(Exec(prog.sink_exec), [this, cap = T{8888}](Res<V>&& r) {
          (void)cap.Read("sink capture");
          LogInvoke(-2, sim::Observe(r, "Detach(e) sink"));
          Final<V>(std::move(r), "Detach(e) sink");
        });
        break;
    }
  }

  std::uint64_t TotalSubmissions() const {
    std::uint64_t n = 0;
    for (auto* p : proxies) {
      n += p->submitted();
    }
    return n;
  }

  template <typename TaskT>
  void LazyStart(TaskT t) {
    using V = std::conditional_t<std::is_same_v<TaskT, Tsk<T>>, T, void>;
    if (prog.build_sleep != 0) {
      sim::SleepNs(prog.build_sleep);  // give pool workers every chance to run something early
    }
    submissions_before_start = TotalSubmissions();
    log_before_start = log.size();
    start_invoke = sim::Seq();
    started = true;
    switch (prog.start) {
      case Start::ToFutureGet:
        Final<V>(std::move(t).ToFuture().Get(), "ToFuture().Get");
        break;
      case Start::ToFutureOnGet:
        Final<V>(std::move(t).ToFuture(Exec(prog.start_exec)).Get(), "ToFuture(e).Get");
        break;
      case Start::Get:
        Final<V>(std::move(t).Get(), "Task::Get");
        break;
      case Start::Detach:
        std::move(t).Detach();
        break;
      case Start::DetachOn:
        std::move(t).Detach(Exec(prog.start_exec));
        break;
      case Start::AsInnerTask: {
        auto f = yaclib::MakeFuture<Unit, E>().ThenInline([tt = std::move(t)]() mutable {
          return std::move(tt);
        });
        Final<V>(std::move(f).Get(), "Get of an eager future whose callback returned the task");
      } break;
      case Start::CoAwait:
        Final<V>(AwaitIt<V>(std::move(t)).Get(), "Get of a coroutine that co_awaited the task");
        break;
      case Start::AwaitKeep:
        SIM_PROBE("completed_task_destroyed");
        Final<V>(AwaitLvalue<V>(std::move(t), false).Get(), "Get of a coroutine that did co_await Await(task) and copied Touch()");
        break;
      case Start::AwaitTake:
        Final<V>(AwaitLvalue<V>(std::move(t), true).Get(), "Get of a coroutine that did co_await Await(task) and moved Touch() out");
        break;
      case Start::Cancel:
        SIM_FAULT("task_cancelled");
        std::move(t).Cancel();
        break;
      case Start::Overwritten:
        // move-assignment swaps: the old chain ends up in the temporary and is cancelled by its destructor, exactly like a dropped task
        SIM_FAULT("task_overwritten_unstarted");
        t = TaskT{};
        break;
      default: {
        SIM_FAULT("task_dropped_unstarted");
        auto dead = std::move(t);
        (void)dead;
      } break;
    }
  }

  template <typename V>
  static Fut<V> AwaitIt(Tsk<V> t) {
    if constexpr (std::is_void_v<V>) {
      co_await std::move(t);
      co_return {};
    } else {
      co_return co_await std::move(t);
    }
  }

  // the task is started and awaited through an lvalue: it stays valid and becomes ready; then its result is either copied
  // (and the completed task destroyed at the end of the coroutine) or moved out
  template <typename V>
  static Fut<V> AwaitLvalue(Tsk<V> t, bool take) {
    co_await yaclib::Await(t);
    if (!t.Valid() || !t.Ready()) {
      sim::Fail("WAIT_NOT_READY", "co_await Await(task) resumed but the task is not valid and ready");
      co_return yaclib::StopTag{};
    }
    if (take) {
      co_return std::move(t).Touch();
    }
    co_return std::as_const(t).Touch();
  }

  // ------------------------------------------------------------------------------------------------- Run
  void Run() final {
    yaclib::FairThreadPool pool{prog.pool_workers};
    yaclib::FairThreadPool pool2{1};
    yaclib::IExecutorPtr strand = yaclib::MakeStrand(&pool);
    LockedManual manual;
    sim::Proxy px[kExCount] = {{&yaclib::MakeInline(), 1 + kExInline},
                               {&pool, 1 + kExPool},
                               {strand.Get(), 1 + kExStrand},
                               {&yaclib::MakeInline(yaclib::StopTag{}), 1 + kExStopped},
                               {&pool2, 1 + kExPool2},
                               {&manual, 1 + kExManual}};
    for (int i = 0; i < kExCount; ++i) {
      proxies[i] = &px[i];
    }
    yaclib_std::thread drainer{[&manual] {
      manual.DrainLoop();
    }};
    if (prog.reject_exec >= 0) {
      px[prog.reject_exec].RejectFrom(prog.reject_from);
    }
    yaclib_std::thread stopper;
    if (prog.stop_kind != 0) {
      stopper = yaclib_std::thread{[this, &pool, &px] {
        sim::SleepNs(prog.stop_at);
        px[kExPool].NoteStopInvoked();
        px[kExStrand].NoteStopInvoked();
        SIM_FAULT("executor_stop");
        if (prog.stop_kind == 1) {
          pool.Stop();
        } else if (prog.stop_kind == 2) {
          pool.HardStop();
        } else {
          pool.SoftStop();
        }
      }};
    }
    MakeSource();
    for (std::size_t i = 0; i < prog.steps.size(); ++i) {
      ApplyStep(prog.steps[i], static_cast<int>(i));
    }
    {
      Carrier last = std::move(car);
      car = std::monostate{};
      switch (last.index()) {
        case 1: EagerSink(std::get<1>(std::move(last))); break;
        case 2: EagerSink(std::get<2>(std::move(last))); break;
        case 3: EagerSink(std::get<3>(std::move(last))); break;
        case 4: EagerSink(std::get<4>(std::move(last))); break;
        case 5: LazyStart(std::get<5>(std::move(last))); break;
        case 6: LazyStart(std::get<6>(std::move(last))); break;
        default: sim::Fail("HARNESS", "nothing to sink"); break;
      }
    }
    // quiescence: a long sleep on the virtual clock returns only after every other fiber has run out of work
    sim::SleepNs(50'000'000);
    for (std::size_t i = 0; i < helpers.size(); ++i) {
      helpers[i].join();
    }
    helpers.clear();
    if (stopper.joinable() && prog.stop_kind != 0) {
      stopper.join();
    }
    px[kExPool].NoteStopInvoked();
    px[kExStrand].NoteStopInvoked();
    px[kExPool2].NoteStopInvoked();
    manual.Stop();
    drainer.join();
    pool.SoftStop();
    pool.Wait();
    pool2.SoftStop();
    pool2.Wait();
    const std::uint64_t by_drainer = manual.drained;
    manual.DrainNow();  // nothing may be left: the drainer was woken for every submission
    if (manual.drained != by_drainer) {
      sim::Fail("JOB_LOST", "%llu jobs were still queued in the manual executor after its drainer had been woken for every submission",
                (unsigned long long)(manual.drained - by_drainer));
    }
    if (by_drainer != 0) {
      SIM_PROBE("manual_executor_ran_jobs");
    }
    strand = nullptr;
    for (int i = 0; i < kExCount; ++i) {
      px[i].CheckQuiescent("pipeline");
      job_records.push_back(px[i].jobs());
      proxies[i] = nullptr;
    }
  }

  // ------------------------------------------------------------------------------------------------- reference model
  struct Model {
    std::vector<Invocation> invoked;  // expected (step, input, exec or -1)
    Outcome final;
    bool final_observable = true;
    std::vector<std::uint32_t> count;  // submissions per executor
  };

  bool static_model = false;  // true: no job records yet, executors behave as configured (no generated faults)

  bool Rejected(std::uint8_t ex, Model& m) {
    const std::uint32_t k = m.count[ex]++;
    if (static_model) {
      return ex == kExStopped;
    }
    if (ex >= job_records.size() || k >= job_records[ex].size()) {
      missing_submission = true;
      return false;
    }
    return job_records[ex][k].drop_at != 0;
  }

  static Outcome SrcOutcome(const Program& p) {
    switch (p.src_out) {
      case SrcOut::Value: return {OKind::Value, p.src_id};
      case SrcOut::Error: return {OKind::Error, p.src_id};
      case SrcOut::Exception: return {OKind::Exception, p.src_id};
      case SrcOut::SetThrowsRef: return {OKind::Exception, p.src_id};
      default: return {OKind::Stopped, 0};
    }
  }

  Outcome Effect(const Step& s, Model& m) {
    const std::uint32_t id = s.id;
    if (s.beh == kThrow) {
      return {OKind::Exception, id};
    }
    switch (s.ret) {
      case Ret::Val: return {OKind::Value, id};
      case Ret::Void: return {OKind::Value, 0};
      case Ret::Res:
      case Ret::ResVoid:
        if (s.beh == kError) return {OKind::Error, id};
        if (s.beh == kException) return {OKind::Exception, id};
        return {OKind::Value, s.ret == Ret::Res ? id : 0};
      case Ret::Fut:
      case Ret::FutVoid:
      case Ret::Shared: {
        const std::uint32_t vid = s.ret == Ret::FutVoid ? 0 : id;
        switch (s.beh) {
          case kError:
          case kLaterError: return {OKind::Error, id};
          case kException: return {OKind::Exception, id};
          case kLaterDropped: return {OKind::Stopped, 0};
          case kRunOnExec: return Rejected(s.inner_exec, m) ? Outcome{OKind::Stopped, 0} : Outcome{OKind::Value, vid};
          default: return {OKind::Value, vid};
        }
      }
      default:  // Task
        if (s.beh == kError) return {OKind::Error, id};
        if (s.beh == kRunOnExec) return Rejected(s.inner_exec, m) ? Outcome{OKind::Stopped, 0} : Outcome{OKind::Value, id};
        return {OKind::Value, id};
    }
  }

  static bool Invoked(Arg a, OKind k) {
    switch (a) {
      case Arg::Res: return true;
      case Arg::Val:
      case Arg::UnitArg: return k == OKind::Value;
      case Arg::Err: return k == OKind::Error || k == OKind::Stopped;
      default: return k == OKind::Exception;
    }
  }

  Model RunModel() {
    const auto& p = prog;
    Model m;
    m.count.assign(kExCount, 0);
    std::uint8_t cur_exec = p.src_exec;
    bool cur_proxied = src_proxied;
    Outcome in = SrcOutcome(p);
    const bool run_src = p.src == Src::RunT || p.src == Src::RunVoid || p.src == Src::RunInline || p.src == Src::RunAsync || p.src == Src::CoroTask || p.src == Src::ScheduleT ||
                         p.src == Src::ScheduleInline || p.src == Src::ScheduleVoid || p.src == Src::LazyContractNow || p.src == Src::LazyContractLater ||
                         p.src == Src::LazyContractOn || p.src == Src::AsyncContractNow || p.src == Src::AsyncContractInline || p.src == Src::AsyncContractLater;
    if (p.src == Src::ReadyVoid || p.src == Src::RunVoid || p.src == Src::TaskVoid || p.src == Src::ScheduleVoid) {
      if (in.kind == OKind::Value) {
        in.id = 0;
      }
    }
    if (p.src == Src::RunT || p.src == Src::RunVoid || p.src == Src::RunInline || p.src == Src::ScheduleT || p.src == Src::ScheduleInline ||
        p.src == Src::ScheduleVoid) {
      if (p.src_out == SrcOut::Dropped) {
        in = {OKind::Exception, p.src_id};  // "dropped" for a function source means it throws
      }
    }
    bool never_started = false;
    if (p.lazy) {
      // the head is submitted to the start executor (explicit one overrides the source's)
      if (p.start == Start::ToFutureOnGet || p.start == Start::DetachOn) {
        cur_exec = p.start_exec;
        cur_proxied = true;
      } else if (p.start == Start::DropUnstarted || p.start == Start::Cancel || p.start == Start::Overwritten) {
        cur_exec = kExStopped;
        cur_proxied = false;  // the library's own stopped inline executor
        never_started = true;
      }
    }
    // source submission
    const bool src_submits = p.lazy ? true
                                    : (p.src == Src::RunT || p.src == Src::RunVoid || p.src == Src::RunInline || p.src == Src::RunAsync ||
                                       p.src == Src::AsyncContractNow || p.src == Src::AsyncContractInline || p.src == Src::AsyncContractLater);
    if (p.src == Src::CoroFuture || p.src == Src::CoroFutureOn) {
      // an eager coroutine starts running at once (logged before any executor hop); On(e) is one submission to e and a
      // refusal completes the coroutine with StopError
      m.invoked.push_back(Invocation{-1, Outcome{}, -1, 0});
      if (p.src == Src::CoroFutureOn && Rejected(p.src_exec, m)) {
        in = {OKind::Stopped, 0};
      }
    }
    if (src_submits) {
      bool rejected = never_started;
      if (!never_started && cur_proxied) {
        rejected = Rejected(cur_exec, m);
      }
      if (rejected) {
        in = {OKind::Stopped, 0};
      } else if (run_src) {
        m.invoked.push_back(Invocation{-1, Outcome{}, cur_proxied ? 1 + cur_exec : -1, 0});
      }
    }
    for (std::size_t i = 0; i < p.steps.size(); ++i) {
      const Step& s = p.steps[i];
      int expect_exec = -1;
      if (s.attach != Attach::Inline) {
        std::uint8_t ex = cur_exec;
        bool proxied = cur_proxied;
        if (s.attach == Attach::On) {
          ex = s.exec;
          proxied = true;
          cur_exec = ex;
          cur_proxied = true;
        }
        bool rejected;
        if (proxied) {
          rejected = Rejected(ex, m);
        } else {
          rejected = ex == kExStopped;  // library inline executors: live one calls, stopped one drops
        }
        if (rejected) {
          in = {OKind::Stopped, 0};
        } else if (proxied) {
          expect_exec = 1 + ex;
        }
      }
      if (Invoked(s.arg, in.kind)) {
        m.invoked.push_back(Invocation{static_cast<int>(i), in, expect_exec, 0});
        in = Effect(s, m);
      } else {
        // pass-through keeps kind and payload; a void step output has no id
      }
    }
    m.final = in;
    if (!p.lazy) {
      if (p.drop_future_after_build) {
        m.final_observable = false;
      } else if (p.sink == Sink::Detach) {
        m.final_observable = false;
      } else if (p.sink == Sink::DetachOn) {
        const bool rejected = Rejected(p.sink_exec, m);
        if (rejected) {
          m.final = {OKind::Stopped, 0};
        }
        m.invoked.push_back(Invocation{-2, m.final, rejected ? -1 : 1 + p.sink_exec, 0});
      } else if (p.sink == Sink::DetachInherit) {
        // runs on the executor carried along the chain
        bool rejected;
        if (cur_proxied) {
          rejected = Rejected(cur_exec, m);
        } else {
          rejected = cur_exec == kExStopped;
        }
        if (rejected) {
          m.final = {OKind::Stopped, 0};
        }
        m.invoked.push_back(Invocation{-2, m.final, (!rejected && cur_proxied) ? 1 + cur_exec : -1, 0});
      } else if (p.sink == Sink::DetachInline) {
        m.invoked.push_back(Invocation{-2, m.final, -1, 0});
      }
    } else if (p.start == Start::Detach || p.start == Start::DetachOn || p.start == Start::DropUnstarted || p.start == Start::Cancel || p.start == Start::Overwritten) {
      m.final_observable = false;
    }
    return m;
  }

  bool missing_submission = false;

  void Finish() final {
    if (sim::Failed()) {
      return;
    }
    Model m = RunModel();
    const auto& p = prog;
    // cells reached
    {
      char name[96];
      std::snprintf(name, sizeof name, "cell_source_%s", SrcName(p.src));
      sim::CountDyn(name);
      if (p.lazy) {
        std::snprintf(name, sizeof name, "cell_start_%s", kStartNames[static_cast<int>(p.start)]);
      } else {
        std::snprintf(name, sizeof name, "cell_sink_%s", kSinkNames[static_cast<int>(p.sink)]);
      }
      sim::CountDyn(name);
      for (auto& inv : m.invoked) {
        if (inv.step >= 0) {
          const Step& s = p.steps[static_cast<std::size_t>(inv.step)];
          std::snprintf(name, sizeof name, "cell_step_%s_%s(%s)->%s", p.lazy ? "lazy" : "eager", kAttachNames[static_cast<int>(s.attach)],
                        kArgNames[static_cast<int>(s.arg)], kRetNames[static_cast<int>(s.ret)]);
          sim::CountDyn(name);
        }
      }
    }
    // submission counts
    for (std::size_t e = 0; e < kExCount; ++e) {
      if (m.count[e] != job_records[e].size() || missing_submission) {
        sim::Fail("WRONG_SUBMIT_COUNT", "executor %s saw %zu submissions, the program implies %u (ThenInline must not submit, every Then(e)/Run must submit once)",
                  kExNames[e], job_records[e].size(), m.count[e]);
        return;
      }
    }
    // lazy: nothing before start
    if (p.lazy) {
      SIM_CHECK(log_before_start == 0, "RAN_BEFORE_START", "%llu callbacks ran before the task was started", (unsigned long long)log_before_start);
      SIM_CHECK(submissions_before_start == 0, "RAN_BEFORE_START", "%llu jobs were submitted before the task was started",
                (unsigned long long)submissions_before_start);
    }
    // invoked set, order, inputs, placement
    if (log.size() != m.invoked.size()) {
      std::string got, want;
      for (auto& i : log) got += std::to_string(i.step) + " ";
      for (auto& i : m.invoked) want += std::to_string(i.step) + " ";
      sim::Fail(log.size() < m.invoked.size() ? "CALLBACK_NOT_INVOKED" : "CALLBACK_INVOKED_WRONGLY", "invoked callbacks [%s] but the sequential reading says [%s]",
                got.c_str(), want.c_str());
      return;
    }
    for (std::size_t i = 0; i < log.size(); ++i) {
      const auto& g = log[i];
      const auto& w = m.invoked[i];
      if (g.step != w.step) {
        sim::Fail("WRONG_ORDER", "callback #%zu invoked was step %d, the sequential reading says step %d", i, g.step, w.step);
        return;
      }
      if (g.step >= 0 || g.step == -2) {
        if (g.in != w.in) {
          sim::Fail("WRONG_INPUT", "step %d received %s, the sequential reading says %s", g.step, g.in.Str().c_str(), w.in.Str().c_str());
          return;
        }
      }
      if (w.exec >= 0 && g.exec != w.exec) {
        sim::Fail("WRONG_EXECUTOR", "step %d ran with current executor tag %d, expected %d (%s)", g.step, g.exec, w.exec, kExNames[w.exec - 1]);
        return;
      }
      if (p.lazy && g.seq < start_invoke) {
        sim::Fail("RAN_BEFORE_START", "step %d ran before the start call", g.step);
        return;
      }
    }
    if (m.final_observable) {
      SIM_CHECK(have_final, "LOST", "the pipeline never delivered a final result");
      if (have_final && final_out != m.final) {
        sim::Fail("WRONG_RESULT", "final result %s, the sequential reading says %s", final_out.Str().c_str(), m.final.Str().c_str());
      }
    }
  }

  std::uint64_t StepBudget() const final {
    return 300000;
  }
};

}  // namespace

SIM_HARNESS("C02", "pipeline", Case,
            "WRONG_RESULT WRONG_INPUT WRONG_ORDER CALLBACK_NOT_INVOKED CALLBACK_INVOKED_WRONGLY WRONG_EXECUTOR WRONG_SUBMIT_COUNT RAN_BEFORE_START LOST "
            "JOB_LOST JOB_FINISHED_TWICE DROP_WITHOUT_STOP EXECUTOR_REF_LEAK LEAK LEAK_OBJECT DOUBLE_DESTROY USE_AFTER_DESTROY DEADLOCK CRASH:*")
