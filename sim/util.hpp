// Harness-side helpers shared by the scenario files: payload/error/exception types, outcome model, proxy executors.
#pragma once

#include "sim.hpp"

#include <yaclib/exe/executor.hpp>
#include <yaclib/exe/job.hpp>
#include <yaclib/fwd.hpp>
#include <yaclib/util/result.hpp>

#include <exception>
#include <string>
#include <vector>

namespace sim {

// ---------------------------------------------------------------- error type carrying a payload
// E of the library must be constructible from StopTag; code 0 means "stopped" (promise dropped / executor refused),
// any other code is an error the scenario set on purpose.
struct SimError {
  SimError(yaclib::StopTag) noexcept : t{0} {
  }
  explicit SimError(std::uint32_t code) noexcept : t{code} {
  }
  static const char* What() noexcept {
    return "sim::SimError";
  }
  Tracked t;
};

struct TaggedEx {
  std::uint32_t id;
};

inline std::exception_ptr MakeEx(std::uint32_t id) {
  return std::make_exception_ptr(TaggedEx{id});
}

// ---------------------------------------------------------------- outcome model
enum class OKind : std::uint8_t { None = 0, Value = 1, Error = 2, Exception = 3, Stopped = 4, Empty = 5, Bad = 6 };

inline const char* Name(OKind k) {
  switch (k) {
    case OKind::None:
      return "none";
    case OKind::Value:
      return "value";
    case OKind::Error:
      return "error";
    case OKind::Exception:
      return "exception";
    case OKind::Stopped:
      return "stopped";
    case OKind::Empty:
      return "empty";
    default:
      return "bad";
  }
}

struct Outcome {
  OKind kind = OKind::None;
  std::uint32_t id = 0;
  bool operator==(const Outcome& o) const noexcept {
    return kind == o.kind && id == o.id;
  }
  bool operator!=(const Outcome& o) const noexcept {
    return !(*this == o);
  }
  std::string Str() const {
    return std::string(Name(kind)) + ":" + std::to_string(id);
  }
};

inline Outcome OutcomeOfErr(const SimError& e, const char* who) {
  const std::uint32_t code = e.t.Read(who);
  if (code == 0xFFFFFFFFU) {
    return {OKind::Bad, 3};
  }
  return code == 0 ? Outcome{OKind::Stopped, 0} : Outcome{OKind::Error, code};
}

inline Outcome OutcomeOfEx(const std::exception_ptr& ep) {
  if (ep == nullptr) {
    return {OKind::Bad, 1};
  }
  try {
    std::rethrow_exception(ep);
  } catch (const TaggedEx& e) {
    return {OKind::Exception, e.id};
  } catch (const yaclib::ResultError<SimError>& e) {
    // an awaited error that was rethrown by co_await / Result::Ok() and escaped: still "that error"
    return OutcomeOfErr(e.Get(), "error rethrown as ResultError");
  } catch (...) {
    return {OKind::Bad, 2};
  }
}
inline Outcome OutcomeOfErr(const yaclib::StopError&, const char*) {
  return Outcome{OKind::Stopped, 0};
}

inline std::uint32_t ValueId(const Tracked& t, const char* who) {
  return t.Read(who);
}
inline std::uint32_t ValueId(const yaclib::Unit&, const char*) {
  return 0;
}
inline std::uint32_t ValueId(int v, const char*) {
  return static_cast<std::uint32_t>(v);
}

// Reads a Result the way a user would and maps it onto the model's outcome.
template <typename V, typename E>
Outcome Observe(const yaclib::Result<V, E>& r, const char* who) {
  switch (r.State()) {
    case yaclib::ResultState::Value: {
      const std::uint32_t id = ValueId(r.Value(), who);
      return id == 0xFFFFFFFFU ? Outcome{OKind::Bad, 4} : Outcome{OKind::Value, id};
    }
    case yaclib::ResultState::Exception:
      return OutcomeOfEx(r.Exception());
    case yaclib::ResultState::Error:
      return OutcomeOfErr(r.Error(), who);
    default:
      return {OKind::Empty, 0};
  }
}

// ---------------------------------------------------------------- proxy executor (DESIGN §2.7.2)
// Wraps every submitted job; forwards to a real executor (or refuses from the k-th submission on, like a stopped
// executor would). Records Call/Drop per job and tags the running fiber with "current executor" around Call.
class Proxy;

namespace detail {
constexpr int kMaxSlots = 128;
extern int gCurExec[kMaxSlots];  // per fiber slot: tag of the proxy whose job is running (0: none)
extern std::uint64_t gCurJob[kMaxSlots];  // per fiber slot: (tag << 32 | 1 + index) of the proxied job that is running (0: none)
}  // namespace detail

inline int CurrentExec() noexcept {
  const int s = Fiber();
  return s >= 0 && s < detail::kMaxSlots ? detail::gCurExec[s] : 0;
}

// Identity of the proxied job the calling fiber is running in (0: none). Two pieces of code that see the same value run inside one Call.
inline std::uint64_t CurrentJob() noexcept {
  const int s = Fiber();
  return s >= 0 && s < detail::kMaxSlots ? detail::gCurJob[s] : 0;
}

struct JobRecord {
  std::uint64_t submit_invoke = 0, submit_return = 0;
  std::uint64_t call_begin = 0, call_end = 0;
  std::uint64_t drop_at = 0;
  int submit_fiber = -1, run_fiber = -1;
  bool rejected_by_proxy = false;
};

class Proxy final : public yaclib::IExecutor {
 public:
  Proxy(yaclib::IExecutor* target, int tag) noexcept : _target{target}, _tag{tag} {
  }
  ~Proxy() override = default;

  void SetTarget(yaclib::IExecutor* t) noexcept {
    _target = t;
  }
  // refuse (Drop in the submitting thread) every submission whose 0-based index is >= k. -1: never.
  void RejectFrom(long long k) noexcept {
    _reject_from = k;
  }
  // harness tells the proxy when a stop request on the real executor has been *invoked* (legalises later drops)
  void NoteStopInvoked() noexcept {
    if (_stop_invoked == 0) {
      _stop_invoked = Seq();
    }
  }

  [[nodiscard]] Type Tag() const noexcept final {
    return Type::Custom;
  }
  [[nodiscard]] bool Alive() const noexcept final {
    return _target->Alive();
  }
  void Submit(yaclib::Job& job) noexcept final;

  void IncRef() noexcept final {
    ++_refs;
    ++_inc;
  }
  void DecRef() noexcept final {
    --_refs;
    if (_refs < 0) {
      Fail("EXECUTOR_OVER_RELEASE", "executor proxy %d released more often than acquired", _tag);
    }
  }

  int tag() const noexcept {
    return _tag;
  }
  long long refs() const noexcept {
    return _refs;
  }
  std::uint64_t submitted() const noexcept {
    return _jobs.size();
  }
  std::uint64_t called() const noexcept {
    return _called;
  }
  std::uint64_t dropped() const noexcept {
    return _dropped;
  }
  const std::vector<JobRecord>& jobs() const noexcept {
    return _jobs;
  }
  // End-of-run check: every job exactly one of Call/Drop; drops only when refusing was legal; refs balanced.
  void CheckQuiescent(const char* what) const;

 private:
  friend struct ProxyJob;
  yaclib::IExecutor* _target;
  int _tag;
  long long _reject_from = -1;
  std::uint64_t _stop_invoked = 0;
  long long _refs = 0;
  std::uint64_t _inc = 0;
  std::uint64_t _called = 0, _dropped = 0;
  std::vector<JobRecord> _jobs;
};

struct ProxyJob final : yaclib::Job {
  Proxy* proxy;
  yaclib::Job* job;
  std::uint32_t index;
  void Call() noexcept final;
  void Drop() noexcept final;
};

}  // namespace sim
