// C15 — coroutine SharedMutex: writers exclude all, readers share, nobody is forgotten (DESIGN §3 C15).
#include <sim/util.hpp>

#include <yaclib/async/future.hpp>
#include <yaclib/async/wait.hpp>
#include <yaclib/coro/await.hpp>
#include <yaclib/coro/current_executor.hpp>
#include <yaclib/coro/future.hpp>
#include <yaclib/coro/on.hpp>
#include <yaclib/coro/shared_mutex.hpp>
#include <yaclib/coro/yield.hpp>
#include <yaclib/runtime/fair_thread_pool.hpp>

#include <mutex>
#include <vector>
#include <yaclib_std/thread>

namespace {

using T = sim::Tracked;

enum Form : int { kLock, kLockShared, kGuard, kGuardShared, kTryLock, kTryLockShared, kTryGuard, kTryGuardShared, kFormCount };
const char* kFormNames[] = {"Lock", "LockShared", "Guard", "GuardShared", "TryLock", "TryLockShared", "TryGuard", "TryGuardShared"};
constexpr bool IsShared(int f) {
  return f == kLockShared || f == kGuardShared || f == kTryLockShared || f == kTryGuardShared;
}
constexpr bool IsTry(int f) {
  return f >= kTryLock;
}
constexpr bool IsGuard(int f) {
  return f == kGuard || f == kGuardShared || f == kTryGuard || f == kTryGuardShared;
}

struct Round {
  int form = 0;
  bool explicit_unlock = false;  // guards: UnlockHere() instead of destruction
  bool yield_in_cs = false;
  int guard_origin = 0;  // guards: 0 m.Guard*()/TryGuard*(), 1 deferred guard then g.Lock()/g.TryLock(), 2 adopt_lock after m.Lock*()
  int gap = 0;
  int guard_moves = 0;  // guards, between the critical section and the release: 1 Release() + UnlockHere*() on the mutex, 2 move-construct, 3 Swap
  std::uint64_t invoke = 0, granted = 0, released = 0;
  bool try_failed = false;
};

class Case;
template <typename M>
yaclib::Future<> Worker(Case* c, M* m, int w, yaclib::IExecutor* e);
template <typename M>
yaclib::Future<> FinalLocker(Case* c, M* m, yaclib::IExecutor* e);

class Case final : public sim::CaseBase {
 public:
  void Generate(sim::Gen& g) final {
    fifo = g.Flip();
    readers_fifo = g.Flip();
    workers = 1 + g.Draw(3);
    const int k = 2 + static_cast<int>(g.Draw(5));
    // bias: every coroutine is mostly a reader or mostly a writer
    for (int w = 0; w < k; ++w) {
      const bool mostly_writer = g.Draw(3) == 0;
      std::vector<Round> rs;
      const int n = 1 + static_cast<int>(g.Draw(sim::Thorough() ? 5 : 3));
      for (int r = 0; r < n; ++r) {
        Round rd;
        int f = static_cast<int>(g.Draw(kFormCount));
        if (g.Draw(4) != 0) {
          // flip to the coroutine's preferred mode
          const bool shared = IsShared(f);
          if (mostly_writer && shared) {
            f -= 1;
          } else if (!mostly_writer && !shared) {
            f += 1;
          }
        }
        rd.form = f;
        rd.explicit_unlock = g.Flip();
        rd.yield_in_cs = g.Flip();
        rd.gap = static_cast<int>(g.Draw(3));
        rd.guard_origin = IsGuard(f) ? static_cast<int>(g.Draw(3)) : 0;
        rd.guard_moves = IsGuard(f) && g.Draw(3) == 2 ? 1 + static_cast<int>(g.Draw(4)) : 0;
        rs.push_back(rd);
      }
      rounds.push_back(rs);
    }
  }

  void Describe(sim::Json& j) const final {
    j.KV("mutex", std::string("SharedMutex<FIFO=") + (fifo ? "true" : "false") + ", ReadersFIFO=" + (readers_fifo ? "true" : "false") + ">");
    j.KV("pool_workers", workers);
    j.Key("coroutines").Arr();
    for (auto& rs : rounds) {
      j.Arr();
      for (auto& r : rs) {
        j.Obj().KV("request", kFormNames[r.form]);
        if (IsGuard(r.form)) {
          static const char* origins[] = {"mutex.Guard*()/TryGuard*()", "guard{m, defer_lock} then guard.Lock()/TryLock()", "guard{m, adopt_lock} after m.Lock*() (try forms: as 0)"};
          j.KV("release", r.explicit_unlock ? "UnlockHere()" : "guard destruction").KV("guard_made_by", origins[r.guard_origin]);
          static const char* moves[] = {"", "guard.Release(), then UnlockHere*() on the mutex", "moved into a second guard (move constructor)",
                                        "swapped into an empty guard (Swap)", "released by move-assigning an empty guard into it (guard = {})"};
          if (r.guard_moves != 0) {
            j.KV("before_release", moves[r.guard_moves]);
          }
        }
        j.KV("yield_inside", r.yield_in_cs).End();
      }
      j.EndArr();
    }
    j.EndArr();
  }

  void Enter(int w, Round& r) {
    r.granted = sim::Seq();
    if (IsShared(r.form)) {
      ++readers_in;
      sim::RaceRead(&cell, sizeof cell);
      if (writers_in != 0) {
        sim::Fail("READER_WITH_WRITER", "coroutine %d got a shared lock (%s) while a writer is inside", w, kFormNames[r.form]);
      }
      if (readers_in >= 2) {
        SIM_PROBE("two_readers_inside");
      }
    } else {
      ++writers_in;
      if (writers_in != 1) {
        sim::Fail("TWO_WRITERS", "coroutine %d got the exclusive lock (%s) while another writer is inside", w, kFormNames[r.form]);
      }
      if (readers_in != 0) {
        sim::Fail("WRITER_WITH_READERS", "coroutine %d got the exclusive lock (%s) while %d readers are inside", w, kFormNames[r.form], readers_in);
      }
      sim::RaceRead(&cell, sizeof cell);
      before = cell;
    }
  }
  void Exit(int w, Round& r) {
    if (IsShared(r.form)) {
      if (writers_in != 0) {
        sim::Fail("READER_WITH_WRITER", "a writer entered while reader coroutine %d was inside", w);
      }
      --readers_in;
    } else {
      sim::RaceWrite(&cell, sizeof cell);
      cell = before + 1;
      if (writers_in != 1 || readers_in != 0) {
        sim::Fail("WRITER_WITH_READERS", "somebody entered while writer coroutine %d was inside (writers %d readers %d)", w, writers_in, readers_in);
      }
      --writers_in;
      ++write_sections;
    }
    r.released = sim::Seq();
  }

  template <typename M>
  void RunT() {
    yaclib::FairThreadPool pool{workers};
    sim::Proxy px{&pool, 1};
    M m;
    {
      std::vector<yaclib::Future<>> fs;
      for (std::size_t w = 0; w < rounds.size(); ++w) {
        fs.push_back(Worker<M>(this, &m, static_cast<int>(w), &px));
      }
      yaclib::Wait(fs.begin(), fs.end());
      for (auto& f : fs) {
        auto r = std::move(f).Get();
        if (!r) {
          sim::Fail("COROUTINE_FAILED", "a worker coroutine did not finish with a value (state %d)", static_cast<int>(r.State()));
        }
      }
      sim::SleepNs(5'000'000);
      // everybody released: one more exclusive and one more shared request must be granted
      auto last = FinalLocker<M>(this, &m, &px);
      auto r = std::move(last).Get();
      if (!r) {
        sim::Fail("COROUTINE_FAILED", "the final locker did not finish with a value");
      }
    }
    sim::SleepNs(5'000'000);
    px.NoteStopInvoked();
    pool.SoftStop();
    pool.Wait();
    px.CheckQuiescent("C15");
  }

  void Run() final {
    if (fifo) {
      if (readers_fifo) {
        RunT<yaclib::SharedMutex<true, true>>();
      } else {
        RunT<yaclib::SharedMutex<true, false>>();
      }
    } else if (readers_fifo) {
      RunT<yaclib::SharedMutex<false, true>>();
    } else {
      RunT<yaclib::SharedMutex<false, false>>();
    }
  }

  void Finish() final {
    if (sim::Failed()) {
      return;
    }
    std::uint64_t expect_writes = 0;
    for (auto& rs : rounds) {
      for (auto& r : rs) {
        if (!r.try_failed) {
          if (r.granted == 0 || r.released == 0) {
            sim::Fail("NOT_GRANTED", "a %s request was never granted", kFormNames[r.form]);
            return;
          }
          if (!IsShared(r.form)) {
            ++expect_writes;
          }
        }
        char name[64];
        std::snprintf(name, sizeof name, "cell_%s%s", kFormNames[r.form], r.try_failed ? "_failed" : "");
        sim::CountDyn(name);
      }
    }
    SIM_CHECK(final_done, "NOT_GRANTED", "the final exclusive+shared requests were not granted");
    SIM_CHECK(write_sections == expect_writes + 1, "LOST_UPDATE", "%llu exclusive sections ran, %llu were granted", (unsigned long long)write_sections,
              (unsigned long long)expect_writes + 1);
    SIM_CHECK(cell == write_sections, "LOST_UPDATE", "shared cell is %llu after %llu exclusive sections", (unsigned long long)cell, (unsigned long long)write_sections);
  }

  bool fifo = true, readers_fifo = false;
  std::uint32_t workers = 1;
  std::vector<std::vector<Round>> rounds;
  int readers_in = 0, writers_in = 0;
  std::uint64_t cell = 0, before = 0, write_sections = 0;
  bool final_done = false;
  Round final_w, final_r;
};

#define CRITICAL_SECTION()                                                                                             \
  do {                                                                                                                 \
    c->Enter(w, r);                                                                                                    \
    if (r.yield_in_cs) {                                                                                               \
      co_await yaclib::Yield();                                                                                        \
    } else {                                                                                                           \
      sim::Point();                                                                                                    \
    }                                                                                                                  \
    c->Exit(w, r);                                                                                                     \
  } while (false)

template <typename M>
yaclib::Future<> FinalLocker(Case* c, M* m, yaclib::IExecutor* e) {
  co_await yaclib::On(*e);
  const int w = -1;
  {
    Round& r = c->final_w;
    r.form = kLock;
    co_await m->Lock();
    CRITICAL_SECTION();
    m->UnlockHere();
  }
  {
    Round& r = c->final_r;
    r.form = kLockShared;
    co_await m->LockShared();
    CRITICAL_SECTION();
    m->UnlockHereShared();
  }
  c->final_done = true;
  co_return {};
}

template <typename M>
yaclib::Future<> Worker(Case* c, M* m, int w, yaclib::IExecutor* e) {
  T frame_local{7000U + static_cast<std::uint32_t>(w)};
  co_await yaclib::On(*e);
  for (auto& r : c->rounds[static_cast<std::size_t>(w)]) {
    for (int y = 0; y < r.gap; ++y) {
      co_await yaclib::Yield();
    }
    r.invoke = sim::Seq();
    switch (r.form) {
      case kLock:
        co_await m->Lock();
        CRITICAL_SECTION();
        m->UnlockHere();
        break;
      case kLockShared:
        co_await m->LockShared();
        CRITICAL_SECTION();
        m->UnlockHereShared();
        break;
      case kTryLock:
        if (!m->TryLock()) {
          r.try_failed = true;
          break;
        }
        CRITICAL_SECTION();
        m->UnlockHere();
        break;
      case kTryLockShared:
        if (!m->TryLockShared()) {
          r.try_failed = true;
          break;
        }
        CRITICAL_SECTION();
        m->UnlockHereShared();
        break;
      case kGuard:
      case kTryGuard: {
        yaclib::UniqueGuard<M> g;
        if (r.guard_origin == 1) {
          g = yaclib::UniqueGuard<M>{*m, std::defer_lock};
          if (r.form == kGuard) {
            co_await g.Lock();
          } else {
            (void)g.TryLock();
          }
        } else if (r.guard_origin == 2 && r.form == kGuard) {
          co_await m->Lock();
          g = yaclib::UniqueGuard<M>{*m, std::adopt_lock};
        } else {
          g = r.form == kGuard ? co_await m->Guard() : m->TryGuard();
        }
        if (!g) {
          r.try_failed = true;
          if (r.guard_moves == 2) {
            // a refused try leaves a guard that does not own the lock: moving it around must not make anything own (and later release) it
            SIM_PROBE("not_owning_guard_moved");
            yaclib::UniqueGuard<M> moved{std::move(g)};
            if (moved.OwnsLock() || g.OwnsLock()) {
              sim::Fail("GUARD_NOT_OWNING", "after move-constructing from a guard that does not own the lock, one of the two guards claims to own it");
            }
          }
          if (r.form == kGuard) {
            sim::Fail("GUARD_NOT_OWNING", "co_await Guard() returned a guard that does not own the lock");
          }
          break;
        }
        CRITICAL_SECTION();
        if (r.guard_moves == 4) {
          // move-assignment swaps: the lock goes to the temporary, whose destructor releases it
          SIM_PROBE("guard_released_by_assignment");
          g = yaclib::UniqueGuard<M>{};
          if (g.OwnsLock()) {
            sim::Fail("GUARD_NOT_OWNING", "a guard still owns the lock after an empty guard was move-assigned into it");
          }
          break;
        }
        if (r.guard_moves == 1) {
          SIM_PROBE("guard_released_by_hand");
          M* released = g.Release();
          if (released != m || g.OwnsLock() || g.Mutex() != nullptr) {
            sim::Fail("GUARD_NOT_OWNING", "guard.Release() did not hand back the mutex / left the guard owning");
          }
          m->UnlockHere();
          break;
        }
        yaclib::UniqueGuard<M> g2;
        if (r.guard_moves == 2) {
          SIM_PROBE("guard_move_constructed");
          yaclib::UniqueGuard<M> tmp{std::move(g)};
          g2.Swap(tmp);
        } else if (r.guard_moves == 3) {
          SIM_PROBE("guard_swapped");
          g2.Swap(g);
        }
        if (r.guard_moves != 0 && (g.OwnsLock() || !g2.OwnsLock() || g2.Mutex() != m)) {
          sim::Fail("GUARD_NOT_OWNING", "after moving/swapping an owning guard the source still owns or the target does not");
        }
        if (r.explicit_unlock) {
          (r.guard_moves != 0 ? g2 : g).UnlockHere();
        }
      } break;
      default: {
        yaclib::SharedGuard<M> g;
        if (r.guard_origin == 1) {
          g = yaclib::SharedGuard<M>{*m, std::defer_lock};
          if (r.form == kGuardShared) {
            co_await g.Lock();
          } else {
            (void)g.TryLock();
          }
        } else if (r.guard_origin == 2 && r.form == kGuardShared) {
          co_await m->LockShared();
          g = yaclib::SharedGuard<M>{*m, std::adopt_lock};
        } else {
          g = r.form == kGuardShared ? co_await m->GuardShared() : m->TryGuardShared();
        }
        if (!g) {
          r.try_failed = true;
          if (r.guard_moves == 2) {
            // a refused try leaves a guard that does not own the lock: moving it around must not make anything own (and later release) it
            SIM_PROBE("not_owning_guard_moved");
            yaclib::SharedGuard<M> moved{std::move(g)};
            if (moved.OwnsLock() || g.OwnsLock()) {
              sim::Fail("GUARD_NOT_OWNING", "after move-constructing from a guard that does not own the lock, one of the two guards claims to own it");
            }
          }
          if (r.form == kGuardShared) {
            sim::Fail("GUARD_NOT_OWNING", "co_await GuardShared() returned a guard that does not own the lock");
          }
          break;
        }
        CRITICAL_SECTION();
        if (r.guard_moves == 4) {
          // move-assignment swaps: the lock goes to the temporary, whose destructor releases it
          SIM_PROBE("guard_released_by_assignment");
          g = yaclib::SharedGuard<M>{};
          if (g.OwnsLock()) {
            sim::Fail("GUARD_NOT_OWNING", "a guard still owns the lock after an empty guard was move-assigned into it");
          }
          break;
        }
        if (r.guard_moves == 1) {
          SIM_PROBE("guard_released_by_hand");
          M* released = g.Release();
          if (released != m || g.OwnsLock() || g.Mutex() != nullptr) {
            sim::Fail("GUARD_NOT_OWNING", "guard.Release() did not hand back the mutex / left the guard owning");
          }
          m->UnlockHereShared();
          break;
        }
        yaclib::SharedGuard<M> g2;
        if (r.guard_moves == 2) {
          SIM_PROBE("guard_move_constructed");
          yaclib::SharedGuard<M> tmp{std::move(g)};
          g2.Swap(tmp);
        } else if (r.guard_moves == 3) {
          SIM_PROBE("guard_swapped");
          g2.Swap(g);
        }
        if (r.guard_moves != 0 && (g.OwnsLock() || !g2.OwnsLock() || g2.Mutex() != m)) {
          sim::Fail("GUARD_NOT_OWNING", "after moving/swapping an owning guard the source still owns or the target does not");
        }
        if (r.explicit_unlock) {
          (r.guard_moves != 0 ? g2 : g).UnlockHere();
        }
      } break;
    }
  }
  if (frame_local.Read("coroutine frame local") != 7000U + static_cast<std::uint32_t>(w)) {
    sim::Fail("FRAME_CORRUPT", "coroutine %d: a local that lives across suspension points changed", w);
  }
  co_return {};
}

}  // namespace

SIM_HARNESS("C15", "c15_shared_mutex", Case,
            "TWO_WRITERS WRITER_WITH_READERS READER_WITH_WRITER NOT_GRANTED LOST_UPDATE GUARD_NOT_OWNING COROUTINE_FAILED FRAME_CORRUPT DEADLOCK NO_PROGRESS JOB_LOST "
            "LEAK LEAK_OBJECT CRASH:*")
