// C08 — FairThreadPool: accepted jobs all run, rejected ones drop, Wait means done (DESIGN §3 C08).
#include <sim/util.hpp>

#include <yaclib/exe/submit.hpp>
#include <yaclib/runtime/fair_thread_pool.hpp>

#include <deque>
#include <vector>
#include <yaclib_std/thread>

namespace {

class Case;

struct JobState {
  int submitter = 0;     // -1: submitted from inside job `parent`
  int parent = -1;
  bool lambda = false;
  bool stale_next = false;  // the job arrives with a non-null `next` left over from another intrusive container (as shared-state callbacks and mutex waiters do)
  int child = -1;        // job submitted from inside this one
  int body_points = 0;
  std::uint64_t submit_invoke = 0, submit_return = 0;
  std::uint64_t call_begin = 0, call_end = 0, drop_at = 0, destroyed_at = 0;
  int calls = 0, drops = 0;
  int run_fiber = -1, drop_fiber = -1, submit_fiber = -1;
  int arg_cell = 0, result_cell = 0;  // plain cells: submit happens-before call, call happens-before Wait() return
};

struct TJob final : yaclib::Job {
  Case* c = nullptr;
  int idx = 0;
  void Call() noexcept final;
  void Drop() noexcept final;
};

struct Notifier {
  Case* c;
  int idx;
  bool armed;
  Notifier(Case* cc, int i) noexcept : c{cc}, idx{i}, armed{true} {
  }
  Notifier(Notifier&& o) noexcept : c{o.c}, idx{o.idx}, armed{o.armed} {
    o.armed = false;
  }
  Notifier(const Notifier&) = delete;
  ~Notifier();
};

enum Stop : int { kNoStop, kStop, kSoftStop, kHardStop };
const char* kStopNames[] = {"none (SoftStop at the end)", "Stop", "SoftStop", "HardStop"};

class Case final : public sim::CaseBase {
 public:
  void Generate(sim::Gen& g) final {
    workers = 1 + g.Draw(3);
    submitters = 1 + static_cast<int>(g.Draw(3));
    stop_kind = static_cast<int>(g.Draw(4));
    stop_at = g.Draw(40) * 15;
    for (int s = 0; s < submitters; ++s) {
      const int m = 1 + static_cast<int>(g.Draw(sim::Thorough() ? 8 : 5));
      for (int k = 0; k < m; ++k) {
        JobState j;
        j.submitter = s;
        j.lambda = g.Flip();
        j.stale_next = !j.lambda && g.Draw(3) == 0;
        j.body_points = static_cast<int>(g.Draw(3));
        const bool nested = g.Draw(4) == 3;
        jobs.push_back(j);
        if (nested) {
          const int parent = static_cast<int>(jobs.size()) - 1;
          JobState c;
          c.submitter = -1;
          c.parent = parent;
          c.lambda = g.Flip();
          c.body_points = static_cast<int>(g.Draw(2));
          jobs.push_back(c);
          jobs[static_cast<std::size_t>(parent)].child = static_cast<int>(jobs.size()) - 1;
        }
      }
      gaps.push_back(static_cast<int>(g.Draw(3)));
    }
    late_submit = g.Flip();
  }

  void Describe(sim::Json& j) const final {
    j.KV("workers", workers).KV("submitters", submitters).KV("jobs", static_cast<int>(jobs.size()));
    j.KV("stop", kStopNames[stop_kind]);
    if (stop_kind != kNoStop) {
      j.KV("stop_at_ns", stop_at);
    }
    j.Key("program").Arr();
    for (auto& job : jobs) {
      j.Obj();
      if (job.submitter >= 0) {
        j.KV("by", job.submitter);
      } else {
        j.KV("from_inside_job", job.parent);
      }
      j.KV("kind", job.lambda ? "Submit(pool, lambda)" : job.stale_next ? "pool.Submit(job whose next still points into another list)" : "pool.Submit(job)").End();
    }
    j.EndArr();
    j.KV("submit_after_wait", late_submit);
  }

  void SubmitJob(int idx) {
    auto& j = jobs[static_cast<std::size_t>(idx)];
    j.submit_fiber = sim::Fiber();
    sim::RaceWrite(&j.arg_cell, sizeof j.arg_cell);
    j.arg_cell = idx + 1;
    j.submit_invoke = sim::Seq();
    if (j.lambda) {
      yaclib::Submit(*pool, [n = Notifier{this, idx}]() noexcept {
        n.c->OnCall(n.idx);
      });
    } else {
      auto& tj = (*tjobs)[static_cast<std::size_t>(idx)];
      if (j.stale_next) {
        SIM_PROBE("job_submitted_with_stale_next");
        tj.next = &decoy;
      }
      pool->Submit(tj);
    }
    jobs[static_cast<std::size_t>(idx)].submit_return = sim::Seq();
  }

  void OnCall(int idx) {
    {
      auto& j = jobs[static_cast<std::size_t>(idx)];
      ++j.calls;
      if (j.calls > 1 || j.drops > 0) {
        sim::Fail("JOB_FINISHED_TWICE", "job %d called although already %s", idx, j.drops > 0 ? "dropped" : "called");
      }
      j.call_begin = sim::Seq();
      j.run_fiber = sim::Fiber();
      if (wait_returned != 0) {
        sim::Fail("RAN_AFTER_WAIT", "job %d started after Wait() had returned", idx);
      }
      ++running;
      max_running = running > max_running ? running : max_running;
      start_order.push_back(idx);
    }
    {
      auto& j = jobs[static_cast<std::size_t>(idx)];
      sim::RaceRead(&j.arg_cell, sizeof j.arg_cell);
      if (j.arg_cell != idx + 1) {
        sim::Fail("STALE_PAYLOAD", "job %d does not see what its submitter wrote before Submit", idx);
      }
      sim::RaceWrite(&j.result_cell, sizeof j.result_cell);
      j.result_cell = idx + 7;
    }
    const int points = jobs[static_cast<std::size_t>(idx)].body_points;
    for (int i = 0; i < points; ++i) {
      sim::Point();
    }
    if ((stop_kind == kNoStop || stop_kind == kSoftStop) && pool_ptr != nullptr && !pool_ptr->Alive()) {
      // only SoftStop is ever requested in this scenario, and SoftStop stops the pool only when nothing is queued or running
      sim::Fail("SOFTSTOP_STOPPED_BUSY_POOL", "Alive() is false inside running job %d although only SoftStop was requested", idx);
    }
    const int child = jobs[static_cast<std::size_t>(idx)].child;
    if (child >= 0) {
      SubmitJob(child);
    }
    --running;
    jobs[static_cast<std::size_t>(idx)].call_end = sim::Seq();
    if (wait_returned != 0) {
      sim::Fail("RAN_AFTER_WAIT", "job %d was still running when Wait() returned", idx);
    }
  }

  void OnDrop(int idx) {
    auto& j = jobs[static_cast<std::size_t>(idx)];
    ++j.drops;
    if (j.drops > 1 || j.calls > 0) {
      sim::Fail("JOB_FINISHED_TWICE", "job %d dropped although already %s", idx, j.calls > 0 ? "called (started-then-dropped)" : "dropped");
    }
    j.drop_at = sim::Seq();
    j.drop_fiber = sim::Fiber();
    if (stop_invoke == 0) {
      sim::Fail("DROP_WITHOUT_STOP", "job %d was dropped before any stop request had been made", idx);
    } else if (pool_ptr != nullptr && pool_ptr->Alive()) {
      // Drop means "refused because stopped": whoever is told so may act on it at once (resubmit, report), so the pool must already say so itself
      sim::Fail("DROP_WITHOUT_STOP", "job %d was dropped while the pool still reports Alive() (it would still accept the next job)", idx);
    }
  }

  void OnDestroyed(int idx) {
    auto& j = jobs[static_cast<std::size_t>(idx)];
    j.destroyed_at = sim::Seq();
    if (j.calls == 0) {
      OnDrop(idx);
    }
  }

  void Run() final {
    yaclib::FairThreadPool tp{workers};
    pool = &tp;
    std::vector<TJob> tj(jobs.size() + 1);
    for (std::size_t i = 0; i < tj.size(); ++i) {
      tj[i].c = this;
      tj[i].idx = static_cast<int>(i);
    }
    tjobs = &tj;
    decoy.c = this;
    decoy.idx = -1;
    decoy.next = nullptr;
    pool_ptr = &tp;
    yaclib_std::thread stopper;
    if (stop_kind != kNoStop) {
      stopper = yaclib_std::thread{[&] {
        sim::SleepNs(stop_at);
        SIM_FAULT("executor_stop");
        stop_invoke = sim::Seq();
        if (stop_kind == kStop) {
          tp.Stop();
        } else if (stop_kind == kSoftStop) {
          tp.SoftStop();
        } else {
          tp.HardStop();
        }
        stop_return = sim::Seq();
      }};
    }
    std::deque<yaclib_std::thread> ts;
    for (int s = 0; s < submitters; ++s) {
      ts.emplace_back([&, s] {
        for (std::size_t i = 0; i < jobs.size(); ++i) {
          if (jobs[i].submitter != s) {
            continue;
          }
          for (int y = 0; y < gaps[static_cast<std::size_t>(s)]; ++y) {
            sim::Yield();
          }
          SubmitJob(static_cast<int>(i));
        }
      });
    }
    for (auto& t : ts) {
      t.join();
    }
    if (stop_kind != kNoStop) {
      stopper.join();
    }
    if (stop_kind == kNoStop || stop_kind == kSoftStop) {
      // make sure the pool does stop: SoftStop once everything submitted so far is accepted
      if (stop_invoke == 0) {
        stop_invoke = sim::Seq();
      }
      final_softstop_invoke = sim::Seq();
      tp.SoftStop();
    }
    tp.Wait();
    wait_returned = sim::Seq();
    for (std::size_t i = 0; i < jobs.size(); ++i) {
      if (jobs[i].calls == 1) {
        sim::RaceRead(&jobs[i].result_cell, sizeof jobs[i].result_cell);
        if (jobs[i].result_cell != static_cast<int>(i) + 7) {
          sim::Fail("STALE_PAYLOAD", "after Wait() the result written by job %zu is not visible", i);
        }
      }
    }
    if (running != 0) {
      sim::Fail("RAN_AFTER_WAIT", "%d jobs inside when Wait() returned", running);
    }
    if (late_submit) {
      // a submission after the pool has stopped and been joined must be dropped, in the submitter's thread
      JobState extra;
      extra.submitter = 99;
      jobs.push_back(extra);
      const int idx = static_cast<int>(jobs.size()) - 1;
      SubmitJob(idx);
      const auto& j = jobs[static_cast<std::size_t>(idx)];
      if (j.drops != 1 || j.drop_fiber != sim::Fiber() || j.drop_at > j.submit_return) {
        sim::Fail("LATE_SUBMIT_NOT_DROPPED", "a job submitted after Wait() was not dropped inside Submit (drops %d calls %d)", j.drops, j.calls);
      }
    }
    pool = nullptr;
    tjobs = nullptr;
    pool_ptr = nullptr;
  }

  void Finish() final {
    if (sim::Failed()) {
      return;
    }
    for (std::size_t i = 0; i < jobs.size(); ++i) {
      const auto& j = jobs[i];
      if (j.submit_invoke == 0) {
        // a nested job whose parent was dropped is never submitted
        continue;
      }
      const int n = j.calls + j.drops;
      if (n != 1) {
        sim::Fail(n == 0 ? "JOB_LOST" : "JOB_FINISHED_TWICE", "job %zu finished %d times (calls %d, drops %d)", i, n, j.calls, j.drops);
        return;
      }
      if (j.lambda && j.destroyed_at == 0) {
        sim::Fail("LEAK_OBJECT", "lambda job %zu was never destroyed", i);
        return;
      }
      if (j.drops != 0) {
        SIM_PROBE("job_dropped");
        if (j.drop_fiber == j.submit_fiber && j.drop_at < j.submit_return) {
          SIM_PROBE("submit_observed_stopped_pool");
        } else {
          SIM_PROBE("hardstop_removed_queued_job");
          if (stop_kind != kHardStop) {
            sim::Fail("ACCEPTED_JOB_DROPPED", "job %zu was accepted (Submit returned without dropping it) and dropped later although no HardStop was requested", i);
            return;
          }
        }
        // Stop / SoftStop / final SoftStop: whatever was submitted (returned) before the stop request began must run
        if (stop_kind != kHardStop && j.submit_return < stop_invoke) {
          sim::Fail("ACCEPTED_JOB_DROPPED", "job %zu: Submit returned (seq %llu) before the stop request began (seq %llu), but it was dropped", i,
                    (unsigned long long)j.submit_return, (unsigned long long)stop_invoke);
          return;
        }
        if (stop_kind == kSoftStop || stop_kind == kNoStop) {
          // SoftStop stops only when nothing is queued or running: a job D cannot be refused if some accepted job X was
          // queued-or-running during the whole of D's Submit
          for (std::size_t x = 0; x < jobs.size(); ++x) {
            const auto& X = jobs[x];
            if (x != i && X.calls == 1 && X.submit_return < j.submit_invoke && X.call_end > j.submit_return) {
              sim::Fail("SOFTSTOP_STOPPED_BUSY_POOL", "job %zu was refused although job %zu was accepted before and still queued or running (SoftStop must wait for an idle pool)", i, x);
              return;
            }
          }
        }
      }
    }
    if (workers == 1) {
      // single worker: jobs start in submission order (interval form)
      std::vector<int> where(jobs.size(), -1);
      for (std::size_t k = 0; k < start_order.size(); ++k) {
        where[static_cast<std::size_t>(start_order[k])] = static_cast<int>(k);
      }
      for (std::size_t a = 0; a < jobs.size(); ++a) {
        for (std::size_t b = 0; b < jobs.size(); ++b) {
          if (a != b && jobs[a].calls == 1 && jobs[b].calls == 1 && jobs[a].submit_return < jobs[b].submit_invoke && where[a] > where[b]) {
            sim::Fail("WRONG_ORDER", "single worker: job %zu was submitted before job %zu but started after it", a, b);
            return;
          }
        }
      }
    }
    if (max_running >= 2) {
      SIM_PROBE("two_jobs_ran_concurrently");
    }
    if (stop_kind == kSoftStop && stop_return != 0) {
      SIM_PROBE("softstop_called");
    }
  }

  std::uint32_t workers = 1, stop_at = 0;
  int submitters = 1, stop_kind = 0;
  bool late_submit = false;
  std::vector<JobState> jobs;
  std::vector<int> gaps;
  std::vector<int> start_order;
  yaclib::FairThreadPool* pool = nullptr;
  std::vector<TJob>* tjobs = nullptr;
  TJob decoy;  // never submitted
  yaclib::FairThreadPool* pool_ptr = nullptr;
  std::uint64_t stop_invoke = 0, stop_return = 0, final_softstop_invoke = 0, wait_returned = 0;
  int running = 0, max_running = 0;
};

void TJob::Call() noexcept {
  if (idx < 0) {
    sim::Fail("JOB_NEVER_SUBMITTED", "the pool called a job that was never submitted to it (it followed the stale `next` of a submitted job)");
    return;
  }
  c->OnCall(idx);
}
void TJob::Drop() noexcept {
  if (idx < 0) {
    sim::Fail("JOB_NEVER_SUBMITTED", "the pool dropped a job that was never submitted to it (it followed the stale `next` of a submitted job)");
    return;
  }
  c->OnDrop(idx);
}
Notifier::~Notifier() {
  if (armed) {
    c->OnDestroyed(idx);
  }
}

}  // namespace

SIM_HARNESS("C08", "c08_pool", Case,
            "JOB_LOST JOB_FINISHED_TWICE JOB_NEVER_SUBMITTED DROP_WITHOUT_STOP ACCEPTED_JOB_DROPPED SOFTSTOP_STOPPED_BUSY_POOL RAN_AFTER_WAIT WRONG_ORDER LATE_SUBMIT_NOT_DROPPED "
            "LEAK LEAK_OBJECT DEADLOCK NO_PROGRESS CRASH:*")
