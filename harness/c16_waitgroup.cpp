// C16 — WaitGroup / OneShotEvent release every waiter exactly when the count hits zero (DESIGN §3 C16).
#include <sim/util.hpp>

#include <yaclib/algo/one_shot_event.hpp>
#include <yaclib/algo/wait_group.hpp>
#include <yaclib/async/contract.hpp>
#include <yaclib/async/future.hpp>
#include <yaclib/async/wait.hpp>
#include <yaclib/coro/await.hpp>
#include <yaclib/coro/current_executor.hpp>
#include <yaclib/coro/future.hpp>
#include <yaclib/coro/on.hpp>
#include <yaclib/runtime/fair_thread_pool.hpp>

#include <chrono>
#include <deque>
#include <vector>
#include <yaclib_std/chrono>
#include <yaclib_std/thread>

namespace {

using sim::OKind;
using sim::Outcome;
using E = sim::SimError;
using T = sim::Tracked;

enum WForm : int { kWait, kWaitFor, kWaitUntil, kCoAwait, kAwaitSticky, kAwaitOn, kTryAddJob, kWFormCount };
const char* kWNames[] = {"Wait", "WaitFor", "WaitUntil", "co_await", "co_await AwaitSticky()", "co_await AwaitOn(e2)", "TryAdd(job)"};
const std::uint32_t kTimes[] = {0, 40, 150, 600, 2500, 12000};
const std::uint32_t kDeadlines[] = {0, 100, 500, 3000, 50000};

struct Waiter {
  int round = 0;  // 0: first use of the object, 1: after Reset
  int form = 0;
  std::uint32_t start_at = 0;
  std::uint32_t timeout = 0;
  // recorded
  std::uint64_t invoke = 0, released = 0;
  std::uint64_t t_invoke = 0, t_return = 0;
  int releases = 0;
  bool timed_result = false, returned = false;
  int exec = -1;
  bool try_add_refused = false;
};

struct Member {      // a fiber holding part of the count
  int round = 0;
  std::uint32_t done_at = 0;
  std::uint32_t extra = 0;     // nested Add(extra) ... Done(extra) while holding its own share
  std::uint32_t share = 1;
  std::vector<std::uint64_t> done_invokes;
  int cell = 0;  // written before Done, read by released waiters
};

struct Fut {
  bool consume = false;   // Consume (moved into the group) or Attach (stays with the owner)
  std::uint32_t at = 0;
  int outcome = 0;
  std::uint32_t id = 0;
  std::uint64_t set_invoke = 0;
  bool by_coroutine = false;  // the future is a coroutine's: it completes through final_suspend (Next), not Promise::Set
};

class Case;
yaclib::Future<> CoWaiter(Case* c, int w, yaclib::IExecutor* e0, yaclib::IExecutor* e2);

struct WJob final : yaclib::Job {
  Case* c = nullptr;
  int w = 0;
  void Call() noexcept final;
  void Drop() noexcept final {
  }
};

class Case final : public sim::CaseBase {
 public:
  void Generate(sim::Gen& g) final {
    bare_event = g.Draw(4) == 3;
    pool_workers = 1 + g.Draw(2);
    const int nw = 1 + static_cast<int>(g.Draw(sim::Thorough() ? 6 : 4));
    for (int i = 0; i < nw; ++i) {
      Waiter w;
      w.form = static_cast<int>(g.Draw(bare_event ? kWFormCount : kWFormCount - 1));
      w.start_at = kTimes[g.Draw(6)];
      w.timeout = kDeadlines[g.Draw(5)];
      waiters.push_back(w);
    }
    if (!bare_event) {
      const int nm = static_cast<int>(g.Draw(4));
      for (int i = 0; i < nm; ++i) {
        Member m;
        m.done_at = kTimes[g.Draw(6)];
        m.extra = g.Draw(3);
        m.share = 1 + g.Draw(2);
        members.push_back(m);
      }
      const int nf = static_cast<int>(g.Draw(4));
      for (int i = 0; i < nf; ++i) {
        Fut f;
        f.consume = g.Flip();
        f.at = kTimes[g.Draw(6)];
        f.outcome = static_cast<int>(g.Draw(3));
        f.id = 10U * static_cast<std::uint32_t>(i + 1) + g.Noise(9);
        f.by_coroutine = g.Draw(3) == 2;
        futs.push_back(f);
      }
      iterator_insert = g.Flip();
      explicit_add = g.Draw(3) == 2;  // Add(n) by hand, then Consume<false>/Attach<false>
      // Reset of a group that nobody waits on but whose count is not zero (a prepared round that is abandoned): "the same as *this = {}"
      reset_first = g.Draw(4) == 0;
    }
    owner_done_at[0] = kTimes[g.Draw(6)];
    // second use of the same object: once everything of the first use has returned, Reset (documented as "the same as *this = {}",
    // not thread-safe, so called at a quiescent point) and a second, smaller round of members and waiters
    second_round = g.Draw(3) == 2;
    if (second_round) {
      const int nw2 = 1 + static_cast<int>(g.Draw(3));
      for (int i = 0; i < nw2; ++i) {
        Waiter w;
        w.round = 1;
        w.form = static_cast<int>(g.Draw(bare_event ? kWFormCount : kWFormCount - 1));
        w.start_at = kTimes[g.Draw(6)];
        w.timeout = kDeadlines[g.Draw(5)];
        waiters.push_back(w);
      }
      if (!bare_event) {
        const int nm2 = static_cast<int>(g.Draw(3));
        for (int i = 0; i < nm2; ++i) {
          Member m;
          m.round = 1;
          m.done_at = kTimes[g.Draw(6)];
          m.extra = g.Draw(3);
          m.share = 1 + g.Draw(2);
          members.push_back(m);
        }
        reset_with_count = g.Flip();
      }
      owner_done_at[1] = kTimes[g.Draw(6)];
    }
  }

  void Describe(sim::Json& j) const final {
    j.KV("object", bare_event ? "OneShotEvent" : "WaitGroup").KV("pool_workers", pool_workers).KV("owner_releases_at_ns", owner_done_at[0]);
    if (reset_first) {
      j.KV("before_first_use", "WaitGroup{3}, then Reset(1)");
    }
    if (second_round) {
      j.KV("second_round_after", bare_event ? "event.Reset()" : reset_with_count ? "group.Reset(1)" : "group.Reset(); group.Add(1)").KV("owner_releases_second_round_at_ns", owner_done_at[1]);
    }
    j.Key("waiters").Arr();
    for (auto& w : waiters) {
      j.Obj().KV("round", w.round).KV("form", kWNames[w.form]).KV("starts_at_ns", w.start_at);
      if (w.form == kWaitFor || w.form == kWaitUntil) {
        j.KV("timeout_ns", w.timeout);
      }
      j.End();
    }
    j.EndArr();
    j.Key("members").Arr();
    for (auto& m : members) {
      j.Obj().KV("round", m.round).KV("share", m.share).KV("done_at_ns", m.done_at).KV("nested_add", m.extra).End();
    }
    j.EndArr();
    j.Key("futures").Arr();
    static const char* outs[] = {"value", "error", "exception"};
    for (auto& f : futs) {
      j.Obj().KV("how", f.consume ? "Consume" : "Attach").KV("completes_at_ns", f.at).KV("outcome", outs[f.outcome]).KV("produced_by", f.by_coroutine ? "coroutine" : "promise").End();
    }
    j.EndArr();
    if (!futs.empty()) {
      j.KV("inserted_by", iterator_insert ? "iterator range" : "one call per future").KV("add", explicit_add ? "Add(n) by hand + Consume<false>/Attach<false>" : "implicit");
    }
  }

  yaclib::WaitGroup<>* wg = nullptr;
  yaclib::OneShotEvent* ev = nullptr;
  sim::Proxy* ex[2] = {nullptr, nullptr};

  void Released(int w) {
    auto& wt = waiters[static_cast<std::size_t>(w)];
    ++wt.releases;
    for (auto& m : members) {
      if (m.round > wt.round) {
        continue;
      }
      sim::RaceRead(&m.cell, sizeof m.cell);
      if (m.cell != 1) {
        sim::Fail("STALE_PAYLOAD", "a released waiter does not see what a member wrote before its Done");
      }
    }
    wt.released = sim::Seq();
    wt.exec = sim::CurrentExec();
    wt.returned = true;
  }

  void RecordDone(std::vector<std::uint64_t>& v) {
    v.push_back(sim::Seq());
  }

  std::vector<yaclib::Promise<void, E>> gates;

  static yaclib::Future<T, E> CoFuture(Case* c, std::size_t i, yaclib::Future<void, E> gate) {
    co_await yaclib::Await(gate);
    Fut& f = c->futs[i];
    f.set_invoke = sim::Seq();
    if (f.outcome == 2) {
      throw sim::TaggedEx{f.id};
    }
    if (f.outcome == 1) {
      co_return E{f.id};
    }
    co_return T{f.id};
  }

  void CompleteFuture(std::size_t i, std::vector<yaclib::Promise<T, E>>& promises) {
    if (futs[i].by_coroutine) {
      std::move(gates[i]).Set();
      return;
    }
    futs[i].set_invoke = sim::Seq();
    if (futs[i].outcome == 1) {
      std::move(promises[i]).Set(E{futs[i].id});
    } else if (futs[i].outcome == 2) {
      std::move(promises[i]).Set(sim::MakeEx(futs[i].id));
    } else {
      std::move(promises[i]).Set(T{futs[i].id});
    }
  }

  void BlockingWaiter(int w) {
    using namespace std::chrono;
    auto& wt = waiters[static_cast<std::size_t>(w)];
    sim::SleepNs(wt.start_at);
    wt.invoke = sim::Seq();
    wt.t_invoke = sim::NowNs();
    bool ok = true;
    switch (wt.form) {
      case kWait:
        if (bare_event) {
          ev->Wait();
        } else {
          wg->Wait();
        }
        break;
      case kWaitFor:
        ok = bare_event ? ev->WaitFor(nanoseconds{wt.timeout}) : wg->WaitFor(nanoseconds{wt.timeout});
        break;
      default:
        ok = bare_event ? ev->WaitUntil(yaclib_std::chrono::steady_clock::now() + nanoseconds{wt.timeout})
                        : wg->WaitUntil(yaclib_std::chrono::steady_clock::now() + nanoseconds{wt.timeout});
        break;
    }
    sim::ReuseDeadFrames();
    wt.t_return = sim::NowNs();
    wt.timed_result = ok;
    if (ok) {
      Released(w);
    } else {
      wt.returned = true;
      SIM_FAULT("deadline_fired");
    }
  }

  void Run() final {
    yaclib::FairThreadPool pool{pool_workers};
    sim::Proxy px[2] = {{&pool, 1}, {&pool, 2}};
    ex[0] = &px[0];
    ex[1] = &px[1];
    yaclib::WaitGroup<> group{reset_first ? 3U : 1U};
    if (reset_first) {
      SIM_PROBE("reset_of_an_abandoned_round");
      group.Reset(1);
    }
    yaclib::OneShotEvent event;
    wg = &group;
    ev = &event;
    const std::size_t nf = futs.size();
    std::vector<yaclib::Future<T, E>> owned(nf);
    std::vector<yaclib::Promise<T, E>> promises(nf);
    gates.clear();
    gates.resize(nf);
    std::deque<yaclib_std::thread> ts;
    std::vector<WJob> wjobs(waiters.size());
    {
      // the owner holds one unit while it adds members and futures (Add only while the count is non-zero)
      std::vector<yaclib::Future<T, E>> to_attach, to_consume;
      for (std::size_t i = 0; i < nf; ++i) {
        if (futs[i].by_coroutine) {
          SIM_PROBE("future_produced_by_coroutine");
          auto [gf, gp] = yaclib::MakeContract<void, E>();
          gates[i] = std::move(gp);
          owned[i] = CoFuture(this, i, std::move(gf));
        } else {
          auto [f, p] = yaclib::MakeContract<T, E>();
          owned[i] = std::move(f);
          promises[i] = std::move(p);
        }
        if (futs[i].at == 0) {
          CompleteFuture(i, promises);  // already complete when it is attached / consumed
        }
      }
      if (!bare_event) {
        if (iterator_insert) {
          std::vector<yaclib::Future<T, E>> consume_range;
          std::vector<std::size_t> attach_idx;
          for (std::size_t i = 0; i < nf; ++i) {
            if (futs[i].consume) {
              consume_range.push_back(std::move(owned[i]));
            }
          }
          if (explicit_add) {
            SIM_PROBE("explicit_add_then_insert_without_add");
            group.Add(consume_range.size());
            group.Consume<false>(consume_range.begin(), consume_range.end());
          } else {
            group.Consume(consume_range.begin(), consume_range.end());  // possibly an empty range
          }
          // Attach takes a range of futures too: build a contiguous range of the attached ones and move them back
          std::vector<yaclib::Future<T, E>> attach_range;
          for (std::size_t i = 0; i < nf; ++i) {
            if (!futs[i].consume) {
              attach_range.push_back(std::move(owned[i]));
              attach_idx.push_back(i);
            }
          }
          {
            if (explicit_add) {
              group.Add(attach_range.size());
              group.Attach<false>(attach_range.begin(), attach_range.size());
            } else {
              group.Attach(attach_range.begin(), attach_range.size());  // possibly an empty range
            }
            for (std::size_t k = 0; k < attach_idx.size(); ++k) {
              owned[attach_idx[k]] = std::move(attach_range[k]);
            }
          }
        } else {
          for (std::size_t i = 0; i < nf; ++i) {
            if (explicit_add) {
              SIM_PROBE("explicit_add_then_insert_without_add");
              group.Add(1);
              if (futs[i].consume) {
                group.Consume<false>(std::move(owned[i]));
              } else {
                group.Attach<false>(owned[i]);
              }
            } else if (futs[i].consume) {
              group.Consume(std::move(owned[i]));
            } else {
              group.Attach(owned[i]);
            }
          }
        }
        for (auto& m : members) {
          if (m.round == 0) {
            group.Add(m.share);
          }
        }
      }
    }
    for (std::size_t i = 0; i < nf; ++i) {
      if (futs[i].at == 0) {
        continue;
      }
      ts.emplace_back([this, i, &promises] {
        sim::SleepNs(futs[i].at);
        CompleteFuture(i, promises);
      });
    }
    std::vector<yaclib::Future<>> coros(waiters.size());
    auto run_round = [&](int cur) {
      for (std::size_t i = 0; i < members.size(); ++i) {
        if (members[i].round != cur) {
          continue;
        }
        ts.emplace_back([this, i, &group] {
          auto& m = members[i];
          sim::SleepNs(m.done_at);
          if (m.extra != 0) {
            group.Add(m.extra);  // legal: this fiber still holds its own share
            sim::Yield();
            RecordDone(m.done_invokes);
            group.Done(m.extra);
          }
          sim::RaceWrite(&m.cell, sizeof m.cell);
          m.cell = 1;
          RecordDone(m.done_invokes);
          group.Done(m.share);
        });
      }
      for (std::size_t w = 0; w < waiters.size(); ++w) {
        auto& wt = waiters[w];
        if (wt.round != cur) {
          continue;
        }
        if (wt.form == kCoAwait || wt.form == kAwaitSticky || wt.form == kAwaitOn) {
          ts.emplace_back([this, w, &coros, &px] {
            sim::SleepNs(waiters[w].start_at);
            coros[w] = CoWaiter(this, static_cast<int>(w), &px[0], &px[1]);
          });
        } else if (wt.form == kTryAddJob) {
          ts.emplace_back([this, w, &wjobs, &event] {
            auto& x = waiters[w];
            sim::SleepNs(x.start_at);
            wjobs[w].c = this;
            wjobs[w].w = static_cast<int>(w);
            x.invoke = sim::Seq();
            if (!event.TryAdd(wjobs[w])) {
              x.try_add_refused = true;
              x.returned = true;
              x.released = sim::Seq();
            }
          });
        } else {
          ts.emplace_back([this, w] {
            BlockingWaiter(static_cast<int>(w));
          });
        }
      }
      // the owner releases its unit / sets the event
      sim::SleepNs(owner_done_at[cur]);
      RecordDone(owner_done[cur]);
      if (bare_event) {
        event.Set();
      } else {
        group.Done(1);
      }
      for (auto& t : ts) {
        t.join();
      }
      ts.clear();
      for (auto& f : coros) {
        if (f.Valid()) {
          auto r = std::move(f).Get();
          f = {};
          if (!r) {
            sim::Fail("COROUTINE_FAILED", "a waiting coroutine did not finish with a value");
          }
        }
      }
    };
    run_round(0);
    if (second_round) {
      SIM_PROBE("second_round_after_reset");
      sim::SleepNs(20'000'000);
      if (bare_event) {
        event.Reset();
      } else if (reset_with_count) {
        group.Reset(1);
      } else {
        group.Reset();
        group.Add(1);
      }
      for (auto& m : members) {
        if (m.round == 1) {
          group.Add(m.share);
        }
      }
      run_round(1);
    }
    sim::SleepNs(20'000'000);
    // attached futures: still the owner's, ready, with their result, consumable
    for (std::size_t i = 0; i < nf; ++i) {
      if (futs[i].consume) {
        continue;
      }
      if (!owned[i].Valid() || !owned[i].Ready()) {
        sim::Fail("ATTACHED_NOT_READY", "attached future %zu is not valid+Ready after its producer finished", i);
        continue;
      }
      const Outcome got = sim::Observe(std::move(owned[i]).Get(), "Get of an attached future");
      const Outcome want = futs[i].outcome == 1 ? Outcome{OKind::Error, futs[i].id} : futs[i].outcome == 2 ? Outcome{OKind::Exception, futs[i].id} : Outcome{OKind::Value, futs[i].id};
      if (got != want) {
        sim::Fail("WRONG_RESULT", "attached future %zu delivered %s, its producer set %s", i, got.Str().c_str(), want.Str().c_str());
      }
    }
    owned.clear();
    promises.clear();
    px[0].NoteStopInvoked();
    px[1].NoteStopInvoked();
    pool.SoftStop();
    pool.Wait();
    px[0].CheckQuiescent("C16");
    px[1].CheckQuiescent("C16");
    wg = nullptr;
    gates.clear();
    ev = nullptr;
    ex[0] = ex[1] = nullptr;
  }

  void Finish() final {
    if (sim::Failed()) {
      return;
    }
    // every event that must precede zero
    std::uint64_t needed[2] = {0, 0};
    for (int r = 0; r < 2; ++r) {
      for (auto v : owner_done[r]) {
        needed[r] = std::max(needed[r], v);
      }
    }
    for (auto& m : members) {
      for (auto v : m.done_invokes) {
        needed[m.round] = std::max(needed[m.round], v);
      }
    }
    for (auto& f : futs) {
      SIM_CHECK(f.set_invoke != 0, "HARNESS", "a future was never completed");
      needed[0] = std::max(needed[0], f.set_invoke);
    }
    for (std::size_t i = 0; i < waiters.size(); ++i) {
      const auto& w = waiters[i];
      const std::uint64_t last_needed = needed[w.round];
      char name[64];
      std::snprintf(name, sizeof name, "cell_%s_%s", bare_event ? "event" : "group", kWNames[w.form]);
      sim::CountDyn(name);
      const bool timed = w.form == kWaitFor || w.form == kWaitUntil;
      if (w.form == kTryAddJob && w.try_add_refused) {
        SIM_CHECK(w.released > last_needed, "TRYADD_REFUSED_EARLY", "TryAdd refused waiter %zu (event already set?) before Set was called", i);
        SIM_PROBE("tryadd_after_set");
        continue;
      }
      if (timed && w.returned && !w.timed_result) {
        if (w.t_return < w.t_invoke + w.timeout) {
          sim::Fail("FALSE_BEFORE_DEADLINE", "waiter %zu: %s returned false at virtual time %llu, deadline %llu", i, kWNames[w.form], (unsigned long long)w.t_return,
                    (unsigned long long)(w.t_invoke + w.timeout));
          return;
        }
        SIM_PROBE("timed_wait_expired");
        continue;
      }
      if (w.releases != 1) {
        sim::Fail(w.releases == 0 ? "WAITER_NOT_RELEASED" : "WAITER_RELEASED_TWICE", "waiter %zu (%s) was released %d times", i, kWNames[w.form], w.releases);
        return;
      }
      if (w.released < last_needed) {
        sim::Fail("RELEASED_BEFORE_ZERO", "waiter %zu (%s) was released at seq %llu, before the last Done / completion began (seq %llu)", i, kWNames[w.form],
                  (unsigned long long)w.released, (unsigned long long)last_needed);
        return;
      }
      if (w.form == kAwaitOn && w.exec != 2) {
        sim::Fail("WRONG_EXECUTOR", "waiter %zu: resumed after AwaitOn(e2) outside e2 (tag %d)", i, w.exec);
        return;
      }
      if (w.form == kAwaitSticky && w.exec != 1) {
        sim::Fail("WRONG_EXECUTOR", "waiter %zu: resumed after AwaitSticky() outside its own executor (tag %d)", i, w.exec);
        return;
      }
      if (w.invoke > last_needed) {
        SIM_PROBE("waiter_arrived_after_zero");
      } else {
        SIM_PROBE("waiter_arrived_before_zero");
      }
    }
  }

  bool bare_event = false, iterator_insert = false;
  bool second_round = false, reset_with_count = false, explicit_add = false, reset_first = false;
  std::uint32_t pool_workers = 1, owner_done_at[2] = {0, 0};
  std::vector<Waiter> waiters;
  std::vector<Member> members;
  std::vector<Fut> futs;
  std::vector<std::uint64_t> owner_done[2];
};

void WJob::Call() noexcept {
  c->Released(w);
}

yaclib::Future<> CoWaiter(Case* c, int w, yaclib::IExecutor* e0, yaclib::IExecutor* e2) {
  T frame_local{6000U + static_cast<std::uint32_t>(w)};
  co_await yaclib::On(*e0);
  auto& wt = c->waiters[static_cast<std::size_t>(w)];
  wt.invoke = sim::Seq();
  if (c->bare_event) {
    if (wt.form == kCoAwait) {
      co_await *c->ev;
    } else if (wt.form == kAwaitSticky) {
      co_await c->ev->AwaitSticky();
    } else {
      co_await c->ev->AwaitOn(*e2);
    }
  } else if (wt.form == kCoAwait) {
    co_await *c->wg;
  } else if (wt.form == kAwaitSticky) {
    co_await c->wg->AwaitSticky();
  } else {
    co_await c->wg->AwaitOn(*e2);
  }
  c->Released(w);
  (void)frame_local.Read("coroutine frame local");
  co_return {};
}

}  // namespace

SIM_HARNESS("C16", "c16_waitgroup", Case,
            "RELEASED_BEFORE_ZERO WAITER_NOT_RELEASED WAITER_RELEASED_TWICE FALSE_BEFORE_DEADLINE ATTACHED_NOT_READY WRONG_RESULT WRONG_EXECUTOR TRYADD_REFUSED_EARLY "
            "COROUTINE_FAILED DEADLOCK NO_PROGRESS LEAK LEAK_OBJECT JOB_LOST CRASH:*")
