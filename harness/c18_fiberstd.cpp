// C18 — yaclib_std locks, condition variables and threads behave like std under fibers (DESIGN §3 C18).
#include <sim/util.hpp>

#include <chrono>
#include <deque>
#include <mutex>
#include <shared_mutex>
#include <vector>
#include <yaclib_std/chrono>
#include <yaclib_std/condition_variable>
#include <yaclib_std/mutex>
#include <yaclib_std/shared_mutex>
#include <yaclib_std/thread>
#include <yaclib_std/thread_local>

namespace {

enum Kind : int { kMutex, kTimedMutex, kRecursive, kRecursiveTimed, kShared, kSharedTimed, kCondVar, kThreads, kKindCount };
const char* kKindNames[] = {"mutex", "timed_mutex", "recursive_mutex", "recursive_timed_mutex", "shared_mutex", "shared_timed_mutex", "condition_variable", "thread/TLS/sleep"};
enum Acq : int { kLock, kTry, kTryFor, kTryUntil, kAcqCount };
const char* kAcqNames[] = {"lock", "try_lock", "try_lock_for", "try_lock_until"};
const std::uint32_t kTimeouts[] = {0, 40, 200, 1000, 6000};
const std::uint32_t kHolds[] = {0, 0, 30, 150, 800};

constexpr bool HasTimed(int k) {
  return k == kTimedMutex || k == kRecursiveTimed || k == kSharedTimed;
}
constexpr bool IsRecursive(int k) {
  return k == kRecursive || k == kRecursiveTimed;
}
constexpr bool IsSharedKind(int k) {
  return k == kShared || k == kSharedTimed;
}

struct Section {
  int acq = 0;
  bool shared = false;
  std::uint32_t timeout = 0;
  int depth = 1;               // recursive kinds: how often the lock is taken (and released)
  std::uint32_t hold = 0;      // virtual ns slept while holding (0: a few yields)
  int yields = 0;
  // recorded
  std::uint64_t invoke = 0, ret = 0, rel_invoke = 0, rel_return = 0;
  std::uint64_t t_invoke = 0, t_return = 0;
  bool success = false;
};

struct CvWaiter {
  int form = 0;                // 0 wait(lock) in a loop, 1 wait(lock, pred), 2 wait_for(lock, d) loop, 3 wait_for(lock, d, pred) until true
  std::uint32_t timeout = 0;
  std::uint32_t start_delay = 0;
  bool done = false;
  std::uint64_t timeouts_seen = 0;
};

YACLIB_THREAD_LOCAL_PTR(int) tTls1;
YACLIB_THREAD_LOCAL_PTR(int) tTls2;

class Case final : public sim::CaseBase {
 public:
  void Generate(sim::Gen& g) final {
    kind = static_cast<int>(g.Draw(kKindCount));
    fibers = 2 + static_cast<int>(g.Draw(3));
    if (kind < kCondVar) {
      for (int f = 0; f < fibers; ++f) {
        std::vector<Section> ss;
        const int n = 1 + static_cast<int>(g.Draw(sim::Thorough() ? 8 : 4));
        for (int i = 0; i < n; ++i) {
          Section s;
          s.acq = static_cast<int>(g.Draw(HasTimed(kind) ? kAcqCount : 2));
          s.shared = IsSharedKind(kind) && g.Flip();
          s.timeout = kTimeouts[g.Draw(5)];
          s.depth = IsRecursive(kind) ? 1 + static_cast<int>(g.Draw(3)) : 1;
          s.hold = kHolds[g.Draw(5)];
          s.yields = static_cast<int>(g.Draw(3));
          ss.push_back(s);
        }
        program.push_back(ss);
        gaps.push_back(g.Draw(3));
      }
    } else if (kind == kCondVar) {
      for (int f = 0; f < fibers; ++f) {
        CvWaiter w;
        w.form = static_cast<int>(g.Draw(6));
        w.timeout = kTimeouts[1 + g.Draw(4)];
        w.start_delay = kHolds[g.Draw(5)];
        waiters.push_back(w);
      }
      notify_all = g.Flip();
      notify_delay = kHolds[g.Draw(5)];
      notify_under_lock = g.Flip();
    } else {
      sleep_ns = kHolds[g.Draw(5)];
      detach_one = g.Flip();
    }
  }

  const char* ClassTag() const final {
    return kKindNames[kind];
  }

  void Describe(sim::Json& j) const final {
    j.KV("object", kKindNames[kind]).KV("fibers", fibers);
    if (kind < kCondVar) {
      j.Key("programs").Arr();
      for (auto& ss : program) {
        j.Arr();
        for (auto& s : ss) {
          j.Obj().KV("acquire", std::string(kAcqNames[s.acq]) + (s.shared ? "_shared" : ""));
          if (s.acq >= kTryFor) {
            j.KV("timeout_ns", s.timeout);
          }
          if (s.depth > 1) {
            j.KV("recursion_depth", s.depth);
          }
          j.KV("hold_ns", s.hold).KV("hold_yields", s.yields).End();
        }
        j.EndArr();
      }
      j.EndArr();
    } else if (kind == kCondVar) {
      static const char* forms[] = {"while(!flag) wait(lock)", "wait(lock, pred)", "while(!flag) wait_for(lock, d)", "while(!wait_for(lock, d, pred))",
                                     "while(!flag) wait_until(lock, now+d)", "while(!wait_until(lock, now+d, pred))"};
      j.Key("waiters").Arr();
      for (auto& w : waiters) {
        j.Obj().KV("form", forms[w.form]).KV("timeout_ns", w.timeout).KV("starts_after_ns", w.start_delay).End();
      }
      j.EndArr();
      j.KV("notifier", notify_all ? "notify_all" : "notify_one x waiters").KV("notify_after_ns", notify_delay).KV("notify_under_lock", notify_under_lock);
    } else {
      j.KV("sleep_ns", sleep_ns).KV("one_thread_detached", detach_one);
    }
  }

  // ------------------------------------------------------------------------------------------------- lock scenarios
  // must-hold accounting: incremented after the acquiring call returned, decremented before the releasing call is made
  int must_excl = 0, must_shared = 0;
  int excl_owner = -1;

  void Acquired(int f, Section& s) {
    if (s.shared) {
      if (must_excl != 0) {
        sim::Fail("SHARED_WITH_EXCLUSIVE", "fiber %d acquired %s (%s_shared) while fiber %d holds it exclusively", f, kKindNames[kind], kAcqNames[s.acq], excl_owner);
      }
      ++must_shared;
    } else {
      if (must_excl != 0 && !(IsRecursive(kind) && excl_owner == f)) {
        sim::Fail("TWO_HOLDERS", "fiber %d acquired %s (%s) while fiber %d holds it", f, kKindNames[kind], kAcqNames[s.acq], excl_owner);
      }
      if (must_shared != 0) {
        sim::Fail("EXCLUSIVE_WITH_SHARED", "fiber %d acquired %s exclusively (%s) while %d fibers hold it shared", f, kKindNames[kind], kAcqNames[s.acq], must_shared);
      }
      ++must_excl;
      excl_owner = f;
    }
  }
  void Releasing(int f, Section& s) {
    (void)f;
    if (s.shared) {
      --must_shared;
    } else {
      --must_excl;
      if (must_excl == 0) {
        excl_owner = -1;
      }
    }
  }

  template <typename M>
  bool AcquireOnce(M& m, Section& s) {
    using namespace std::chrono;
    constexpr bool kTimed = requires(M& x) { x.try_lock_for(nanoseconds{1}); };
    constexpr bool kSharedCap = requires(M& x) { x.lock_shared(); };
    if constexpr (kSharedCap) {
      if (s.shared) {
        switch (s.acq) {
          case kLock: m.lock_shared(); return true;
          case kTry: return m.try_lock_shared();
          default:
            if constexpr (kTimed) {
              if (s.acq == kTryFor) {
                return m.try_lock_shared_for(nanoseconds{s.timeout});
              }
              return m.try_lock_shared_until(yaclib_std::chrono::steady_clock::now() + nanoseconds{s.timeout});
            }
            return m.try_lock_shared();
        }
      }
    }
    switch (s.acq) {
      case kLock: m.lock(); return true;
      case kTry: return m.try_lock();
      default:
        if constexpr (kTimed) {
          if (s.acq == kTryFor) {
            return m.try_lock_for(nanoseconds{s.timeout});
          }
          return m.try_lock_until(yaclib_std::chrono::steady_clock::now() + nanoseconds{s.timeout});
        }
        return m.try_lock();
    }
  }

  template <typename M>
  void ReleaseOnce(M& m, Section& s) {
    constexpr bool kSharedCap = requires(M& x) { x.lock_shared(); };
    if constexpr (kSharedCap) {
      if (s.shared) {
        m.unlock_shared();
        return;
      }
    }
    m.unlock();
  }

  template <typename M>
  void LockFiber(M& m, int f) {
    for (std::uint32_t y = 0; y < gaps[static_cast<std::size_t>(f)]; ++y) {
      sim::Yield();
    }
    for (auto& s : program[static_cast<std::size_t>(f)]) {
      s.t_invoke = sim::NowNs();
      s.invoke = sim::Seq();
      const bool ok = AcquireOnce(m, s);
      s.ret = sim::Seq();
      s.t_return = sim::NowNs();
      s.success = ok;
      if (!ok) {
        continue;
      }
      Acquired(f, s);
      int taken = 1;
      for (; taken < s.depth; ++taken) {
        // re-entrant acquisitions by the owner never block and never fail
        Section inner = s;
        inner.acq = (taken % 2) == 1 ? kTry : kLock;
        if (!AcquireOnce(m, inner)) {
          sim::Fail("RECURSIVE_REFUSED", "fiber %d owns the %s but a nested %s was refused", f, kKindNames[kind], kAcqNames[inner.acq]);
          break;
        }
        Acquired(f, s);
      }
      if (s.hold != 0) {
        sim::SleepNs(s.hold);
      }
      for (int y = 0; y < s.yields; ++y) {
        sim::Yield();
      }
      if (!s.shared) {
        const std::uint64_t before = cell;
        sim::Point();
        cell = before + 1;
        ++sections;
      }
      for (int i = 0; i < taken; ++i) {
        if (i == taken - 1) {
          s.rel_invoke = sim::Seq();
        }
        Releasing(f, s);
        ReleaseOnce(m, s);
      }
      s.rel_return = sim::Seq();
    }
  }

  template <typename M>
  void RunLocks() {
    M m;
    std::deque<yaclib_std::thread> ts;
    for (int f = 0; f < fibers; ++f) {
      ts.emplace_back([this, f, &m] {
        LockFiber(m, f);
      });
    }
    for (auto& t : ts) {
      t.join();
    }
  }

  // ------------------------------------------------------------------------------------------------- condition variable
  void RunCondVar() {
    using namespace std::chrono;
    yaclib_std::mutex m;
    yaclib_std::condition_variable cv;
    bool flag = false;
    std::deque<yaclib_std::thread> ts;
    for (std::size_t i = 0; i < waiters.size(); ++i) {
      ts.emplace_back([this, i, &m, &cv, &flag] {
        CvWaiter& w = waiters[i];
        if (w.start_delay != 0) {
          sim::SleepNs(w.start_delay);
        }
        std::unique_lock lock{m};
        switch (w.form) {
          case 0:
            while (!flag) {
              cv.wait(lock);
            }
            break;
          case 1:
            cv.wait(lock, [&] {
              return flag;
            });
            break;
          case 2:
            while (!flag) {
              const std::uint64_t t0 = sim::NowNs();
              const auto st = cv.wait_for(lock, nanoseconds{w.timeout});
              if (st == std::cv_status::timeout) {
                ++w.timeouts_seen;
                if (sim::NowNs() < t0 + w.timeout) {
                  sim::Fail("TIMEOUT_BEFORE_DEADLINE", "condition_variable::wait_for reported timeout at %llu, deadline %llu", (unsigned long long)sim::NowNs(),
                            (unsigned long long)(t0 + w.timeout));
                }
              }
            }
            break;
          case 4:
            while (!flag) {
              const std::uint64_t t0 = sim::NowNs();
              const auto st = cv.wait_until(lock, yaclib_std::chrono::steady_clock::now() + nanoseconds{w.timeout});
              if (st == std::cv_status::timeout) {
                ++w.timeouts_seen;
                if (sim::NowNs() < t0 + w.timeout) {
                  sim::Fail("TIMEOUT_BEFORE_DEADLINE", "condition_variable::wait_until reported timeout at %llu, deadline %llu", (unsigned long long)sim::NowNs(),
                            (unsigned long long)(t0 + w.timeout));
                }
              }
            }
            break;
          case 5:
            for (;;) {
              const std::uint64_t t0 = sim::NowNs();
              if (cv.wait_until(lock, yaclib_std::chrono::steady_clock::now() + nanoseconds{w.timeout}, [&] {
                    return flag;
                  })) {
                break;
              }
              ++w.timeouts_seen;
              if (sim::NowNs() < t0 + w.timeout) {
                sim::Fail("TIMEOUT_BEFORE_DEADLINE", "condition_variable::wait_until(pred) returned false at %llu, deadline %llu", (unsigned long long)sim::NowNs(),
                          (unsigned long long)(t0 + w.timeout));
              }
            }
            break;
          default:
            for (;;) {
              const std::uint64_t t0 = sim::NowNs();
              if (cv.wait_for(lock, nanoseconds{w.timeout}, [&] {
                    return flag;
                  })) {
                break;
              }
              ++w.timeouts_seen;
              if (sim::NowNs() < t0 + w.timeout) {
                sim::Fail("TIMEOUT_BEFORE_DEADLINE", "condition_variable::wait_for(pred) returned false at %llu, deadline %llu", (unsigned long long)sim::NowNs(),
                          (unsigned long long)(t0 + w.timeout));
              }
            }
            break;
        }
        if (!flag) {
          sim::Fail("WAIT_RETURNED_WITHOUT_PREDICATE", "a predicate wait returned although the predicate is false");
        }
        if (!lock.owns_lock()) {
          sim::Fail("WAIT_LOST_LOCK", "the lock is not held after the wait returned");
        }
        w.done = true;
      });
    }
    if (notify_delay != 0) {
      sim::SleepNs(notify_delay);
    }
    {
      std::unique_lock lock{m};
      flag = true;
      if (notify_under_lock) {
        Notify(cv);
      }
    }
    if (!notify_under_lock) {
      Notify(cv);
    }
    // every waiter was either blocked before the notifies (and must be woken by them) or sees the flag
    for (auto& t : ts) {
      t.join();
    }
  }

  void Notify(yaclib_std::condition_variable& cv) {
    if (notify_all) {
      cv.notify_all();
    } else {
      for (std::size_t i = 0; i < waiters.size(); ++i) {
        cv.notify_one();
      }
    }
  }

  // ------------------------------------------------------------------------------------------------- threads, TLS, sleep
  void RunThreads() {
    using namespace std::chrono;
    std::vector<int> slots(static_cast<std::size_t>(fibers) * 2, 0);
    std::vector<int> finished(static_cast<std::size_t>(fibers), 0);
    int root_a = 0;
    tTls1 = &root_a;
    std::deque<yaclib_std::thread> ts;
    for (int f = 0; f < fibers; ++f) {
      ts.emplace_back([this, f, &slots, &finished] {
        int* mine1 = &slots[static_cast<std::size_t>(f) * 2];
        int* mine2 = &slots[static_cast<std::size_t>(f) * 2 + 1];
        if (tTls2.Get() != nullptr) {
          sim::Fail("TLS_SHARED", "a fresh fiber sees a thread-local pointer set by another fiber");
        }
        tTls1 = mine1;
        sim::Yield();
        tTls2 = mine2;
        const std::uint64_t t0 = sim::NowNs();
        yaclib_std::this_thread::sleep_for(nanoseconds{sleep_ns});
        if (sim::NowNs() < t0 + sleep_ns) {
          sim::Fail("SLEEP_TOO_SHORT", "sleep_for(%u ns) returned after %llu ns of virtual time", sleep_ns, (unsigned long long)(sim::NowNs() - t0));
        }
        sim::Yield();
        if (tTls1.Get() != mine1 || tTls2.Get() != mine2) {
          sim::Fail("TLS_SHARED", "fiber %d reads back a thread-local pointer it did not write", f);
        }
        if (yaclib_std::this_thread::get_id() == yaclib_std::thread::id{}) {
          sim::Fail("BAD_THREAD_ID", "this_thread::get_id() of a running fiber equals the id of no thread");
        }
        finished[static_cast<std::size_t>(f)] = 1;
      });
    }
    for (int f = 0; f < fibers; ++f) {
      auto& t = ts[static_cast<std::size_t>(f)];
      if (detach_one && f == fibers - 1) {
        t.detach();
        continue;
      }
      t.join();
      if (finished[static_cast<std::size_t>(f)] != 1) {
        sim::Fail("JOIN_RETURNED_EARLY", "join() of thread %d returned before its function finished", f);
      }
    }
    if (tTls1.Get() != &root_a) {
      sim::Fail("TLS_SHARED", "the creating fiber's thread-local pointer was changed by its children");
    }
    tTls1 = nullptr;
    sim::SleepNs(20'000'000);  // the detached thread finishes on its own
    if (detach_one && finished[static_cast<std::size_t>(fibers) - 1] != 1) {
      sim::Fail("DETACHED_NEVER_RAN", "a detached thread never finished");
    }
  }

  void Run() final {
    switch (kind) {
      case kMutex: RunLocks<yaclib_std::mutex>(); break;
      case kTimedMutex: RunLocks<yaclib_std::timed_mutex>(); break;
      case kRecursive: RunLocks<yaclib_std::recursive_mutex>(); break;
      case kRecursiveTimed: RunLocks<yaclib_std::recursive_timed_mutex>(); break;
      case kShared: RunLocks<yaclib_std::shared_mutex>(); break;
      case kSharedTimed: RunLocks<yaclib_std::shared_timed_mutex>(); break;
      case kCondVar: RunCondVar(); break;
      default: RunThreads(); break;
    }
  }

  // ------------------------------------------------------------------------------------------------- end-of-run oracle
  void Finish() final {
    if (sim::Failed()) {
      return;
    }
    sim::CountDyn((std::string("cell_") + kKindNames[kind]).c_str());
    if (kind >= kCondVar) {
      for (auto& w : waiters) {
        SIM_CHECK(w.done, "WAITER_NOT_WOKEN", "a condition_variable waiter never finished");
        if (w.timeouts_seen != 0) {
          SIM_PROBE("cv_timed_wait_expired");
        }
      }
      return;
    }
    SIM_CHECK(cell == sections, "LOST_UPDATE", "non-atomic counter is %llu after %llu exclusive sections", (unsigned long long)cell, (unsigned long long)sections);
    // failed acquisitions must be explained
    for (std::size_t f = 0; f < program.size(); ++f) {
      for (auto& s : program[f]) {
        char name[96];
        std::snprintf(name, sizeof name, "cell_%s_%s%s_%s", kKindNames[kind], kAcqNames[s.acq], s.shared ? "_shared" : "", s.success ? "ok" : "failed");
        sim::CountDyn(name);
        if (s.success) {
          continue;
        }
        if (s.acq == kTryFor || s.acq == kTryUntil) {
          if (s.t_return < s.t_invoke + s.timeout) {
            sim::Fail("TIMED_FAILURE_BEFORE_DEADLINE", "fiber %zu: %s failed at virtual time %llu, before its deadline %llu", f, kAcqNames[s.acq],
                      (unsigned long long)s.t_return, (unsigned long long)(s.t_invoke + s.timeout));
            return;
          }
          continue;
        }
        // try_lock: some other fiber's incompatible may-hold interval [acquire invoke, release return] must overlap
        bool explained = false;
        for (std::size_t g = 0; g < program.size() && !explained; ++g) {
          if (g == f) {
            continue;
          }
          for (auto& o : program[g]) {
            if (!o.success) {
              // an acquisition in flight that later failed (timed) is not a holder; one that has not returned yet might be
              continue;
            }
            const bool incompatible = !(s.shared && o.shared);
            const std::uint64_t o_end = o.rel_return == 0 ? ~0ULL : o.rel_return;
            if (incompatible && o.invoke < s.ret && s.invoke < o_end) {
              explained = true;
              break;
            }
          }
        }
        if (!explained) {
          sim::Fail("TRY_FAILED_ON_FREE_LOCK", "fiber %zu: %s%s failed although no other fiber could have been holding the %s incompatibly", f, kAcqNames[s.acq],
                    s.shared ? "_shared" : "", kKindNames[kind]);
          return;
        }
      }
    }
  }

  int kind = 0, fibers = 2;
  std::vector<std::vector<Section>> program;
  std::vector<std::uint32_t> gaps;
  std::vector<CvWaiter> waiters;
  bool notify_all = false, notify_under_lock = false, detach_one = false;
  std::uint32_t notify_delay = 0, sleep_ns = 0;
  std::uint64_t cell = 0, sections = 0;
};

}  // namespace

SIM_HARNESS("C18", "c18_fiberstd", Case,
            "TWO_HOLDERS SHARED_WITH_EXCLUSIVE EXCLUSIVE_WITH_SHARED RECURSIVE_REFUSED TRY_FAILED_ON_FREE_LOCK TIMED_FAILURE_BEFORE_DEADLINE LOST_UPDATE WAITER_NOT_WOKEN "
            "TIMEOUT_BEFORE_DEADLINE WAIT_RETURNED_WITHOUT_PREDICATE WAIT_LOST_LOCK JOIN_RETURNED_EARLY TLS_SHARED SLEEP_TOO_SHORT DETACHED_NEVER_RAN DEADLOCK NO_PROGRESS CRASH:*")
