// C19 — yaclib_std::atomic computes exactly what std::atomic computes (DESIGN §3 C19).
// Half of this property is a pure function of its input (generated single-threaded sequences against std::atomic);
// the simulator contributes the fiber runtime the FIBER atomics live in and the injected spurious weak-CAS failures.
#include <sim/util.hpp>

#include <atomic>
// clang-format off
#include <yaclib_std/atomic>
#include <yaclib/fault/detail/atomic.hpp>
#include <yaclib/fault/detail/atomic_flag.hpp>
// clang-format on

#include <cmath>
#include <cstring>
#include <limits>
#include <type_traits>
#include <vector>
#include <yaclib_std/atomic>
#include <yaclib_std/thread>

namespace {

enum OpKind : int {
  kLoad, kStore, kExchange, kCasWeak2, kCasWeak1, kCasStrong2, kCasStrong1, kAssign, kConvert,
  kFetchAdd, kFetchSub, kAddAssign, kSubAssign,
  kFetchAnd, kFetchOr, kFetchXor, kAndAssign, kOrAssign, kXorAssign,
  kPreInc, kPostInc, kPreDec, kPostDec, kFence, kOpCount
};
const char* kOpNames[] = {"load", "store", "exchange", "compare_exchange_weak(s,f)", "compare_exchange_weak(o)", "compare_exchange_strong(s,f)",
                          "compare_exchange_strong(o)", "operator=", "operator T", "fetch_add", "fetch_sub", "operator+=", "operator-=", "fetch_and",
                          "fetch_or", "fetch_xor", "operator&=", "operator|=", "operator^=", "++a", "a++", "--a", "a--", "atomic_thread_fence"};
enum TypeId : int { kBool, kI8, kU8, kI16, kU16, kI32, kU32, kI64, kU64, kPtr, kFloat, kDouble, kFlag, kTypeCount };
const char* kTypeNames[] = {"bool", "int8_t", "uint8_t", "int16_t", "uint16_t", "int32_t", "uint32_t", "int64_t", "uint64_t", "int*", "float", "double", "atomic_flag"};
const std::memory_order kOrders[] = {std::memory_order_relaxed, std::memory_order_consume, std::memory_order_acquire, std::memory_order_release, std::memory_order_acq_rel,
                                     std::memory_order_seq_cst};

struct Op {
  int kind = 0;
  std::uint32_t a = 0, b = 0;   // operand selectors
  std::uint32_t o1 = 0, o2 = 0; // memory order selectors
  bool use_current = false;     // CAS: expected := the current value (so that the exchange can succeed)
};

int gPointees[64];

template <typename T>
T Operand(std::uint32_t sel) {
  if constexpr (std::is_same_v<T, bool>) {
    return (sel & 1U) != 0;
  } else if constexpr (std::is_pointer_v<T>) {
    return sel % 9 == 0 ? nullptr : &gPointees[sel % 64];
  } else if constexpr (std::is_floating_point_v<T>) {
    switch (sel % 12) {
      case 0: return T{0};
      case 1: return -T{0};
      case 2: return T{1};
      case 3: return T{-1};
      case 4: return std::numeric_limits<T>::quiet_NaN();
      case 5: return std::numeric_limits<T>::infinity();
      case 6: return -std::numeric_limits<T>::infinity();
      case 7: return std::numeric_limits<T>::denorm_min();
      case 8: return std::numeric_limits<T>::max();
      case 9: return std::numeric_limits<T>::lowest();
      default: return static_cast<T>(static_cast<int>(sel % 1000) - 500) / T{8};
    }
  } else {
    using U = std::make_unsigned_t<T>;
    switch (sel % 10) {
      case 0: return T{0};
      case 1: return T{1};
      case 2: return static_cast<T>(~U{0});
      case 3: return std::numeric_limits<T>::min();
      case 4: return std::numeric_limits<T>::max();
      case 5: return static_cast<T>(U{1} << (sizeof(T) * 8 - 1));
      case 6: return static_cast<T>(U{0x55} * (~U{0} / U{0xFF}));
      default: return static_cast<T>(sel * 2654435761U);
    }
  }
}

template <typename T>
bool SameBits(const T& x, const T& y) {
  return std::memcmp(&x, &y, sizeof(T)) == 0;
}

template <typename T>
std::string Show(const T& v) {
  unsigned char raw[sizeof(T)];
  std::memcpy(raw, &v, sizeof(T));
  std::string s = "0x";
  char buf[4];
  for (std::size_t i = sizeof(T); i-- > 0;) {
    std::snprintf(buf, sizeof buf, "%02x", raw[i]);
    s += buf;
  }
  return s;
}

class Case final : public sim::CaseBase {
 public:
  void Generate(sim::Gen& g) final {
    type = static_cast<int>(g.Draw(kTypeCount));
    thread_wrapper = g.Flip();
    const std::uint32_t n = 1 + g.Draw(sim::Thorough() ? 120 : 40);
    for (std::uint32_t i = 0; i < n; ++i) {
      Op op;
      op.kind = static_cast<int>(g.Draw(kOpCount));
      op.a = g.Draw(4096);
      op.b = g.Draw(4096);
      op.o1 = g.Draw(6);
      op.o2 = g.Draw(3);
      op.use_current = g.Draw(3) != 0;
      ops.push_back(op);
    }
    initial = g.Draw(4096);
  }

  const char* ClassTag() const final {
    return kTypeNames[type];
  }

  void Describe(sim::Json& j) const final {
    j.KV("T", kTypeNames[type]).KV("implementation", type == kFlag ? (thread_wrapper ? "AtomicFlag<std::atomic_flag>" : "yaclib_std::atomic_flag (fiber)")
                                                                   : (thread_wrapper ? "Atomic<std::atomic<T>, T> (THREAD wrapper)" : "yaclib_std::atomic<T> (FIBER)"));
    j.KV("ops", static_cast<int>(ops.size()));
    j.Key("sequence").Arr();
    for (std::size_t i = 0; i < ops.size() && i < 12; ++i) {
      j.Str(kOpNames[ops[i].kind]);
    }
    j.EndArr();
  }

  static std::memory_order LoadOrder(std::uint32_t s) {
    static const std::memory_order o[] = {std::memory_order_relaxed, std::memory_order_consume, std::memory_order_acquire, std::memory_order_seq_cst};
    return o[s % 4];
  }
  static std::memory_order StoreOrder(std::uint32_t s) {
    static const std::memory_order o[] = {std::memory_order_relaxed, std::memory_order_release, std::memory_order_seq_cst};
    return o[s % 3];
  }
  static std::memory_order FailOrder(std::uint32_t s) {
    static const std::memory_order o[] = {std::memory_order_relaxed, std::memory_order_acquire, std::memory_order_seq_cst};
    return o[s % 3];
  }

  template <typename T>
  void Mismatch(std::size_t i, const char* what, const T& got, const T& want) {
    // the operation is part of the class so that shrinking cannot drift from one defective operation to another
    const std::string cls = std::string("DIFFERS_FROM_STD[") + kOpNames[ops[i].kind] + "]";
    sim::Fail(cls.c_str(), "op %zu %s on atomic<%s>: %s is %s, std::atomic gives %s", i, kOpNames[ops[i].kind], kTypeNames[type], what, Show(got).c_str(),
              Show(want).c_str());
  }

  // T: value type, A: atomic under test. Runs the whole sequence against std::atomic<T>.
  template <typename T, typename A>
  void RunSeq() {
    constexpr bool kArith = !std::is_same_v<T, bool>;
    constexpr bool kBits = std::is_integral_v<T> && !std::is_same_v<T, bool>;
    constexpr bool kIncDec = kBits || std::is_pointer_v<T>;
    using Arg = std::conditional_t<std::is_pointer_v<T>, std::ptrdiff_t, T>;
    const T init = Operand<T>(initial);
    A a{init};
    std::atomic<T> ref{init};
    for (std::size_t i = 0; i < ops.size() && !sim::Failed(); ++i) {
      const Op& op = ops[i];
      const T x = Operand<T>(op.a);
      Arg arg;
      if constexpr (std::is_pointer_v<T>) {
        arg = static_cast<std::ptrdiff_t>(op.b % 7) - 3;
      } else {
        arg = Operand<T>(op.b);
      }
      const std::memory_order order = kOrders[op.o1 % 6];
      bool have_ret = false;
      T got{}, want{};
      switch (op.kind) {
        case kLoad: got = a.load(LoadOrder(op.o1)); want = ref.load(LoadOrder(op.o1)); have_ret = true; break;
        case kStore: a.store(x, StoreOrder(op.o1)); ref.store(x, StoreOrder(op.o1)); break;
        case kExchange: got = a.exchange(x, order); want = ref.exchange(x, order); have_ret = true; break;
        case kCasWeak2:
        case kCasWeak1:
        case kCasStrong2:
        case kCasStrong1: {
          const bool weak = op.kind == kCasWeak2 || op.kind == kCasWeak1;
          const bool two = op.kind == kCasWeak2 || op.kind == kCasStrong2;
          T cur = ref.load();
          T exp_a = op.use_current ? cur : Operand<T>(op.b);
          T exp_r = exp_a;
          const T exp_before = exp_a;
          const T desired = x;
          bool ra;
          if (weak) {
            ra = two ? a.compare_exchange_weak(exp_a, desired, order, FailOrder(op.o2)) : a.compare_exchange_weak(exp_a, desired, order);
          } else {
            ra = two ? a.compare_exchange_strong(exp_a, desired, order, FailOrder(op.o2)) : a.compare_exchange_strong(exp_a, desired, order);
          }
          // the reference executes the strong form: what must happen unless a (legal) spurious failure was injected
          const bool rr = two ? ref.compare_exchange_strong(exp_r, desired, order, FailOrder(op.o2)) : ref.compare_exchange_strong(exp_r, desired, order);
          if (ra == rr) {
            if (!SameBits(exp_a, exp_r)) {
              Mismatch(i, "expected after the call", exp_a, exp_r);
            }
          } else if (weak && !ra && rr) {
            // spurious failure: returns false, expected holds the current value (bitwise what it held), nothing changed
            SIM_PROBE("spurious_weak_failure_observed");
            if (!SameBits(exp_a, exp_before)) {
              Mismatch(i, "expected after a spurious failure", exp_a, exp_before);
            }
            ref.store(cur);  // undo the reference's successful exchange
          } else {
            sim::Fail(weak ? "WEAK_CAS_WRONG" : "STRONG_CAS_WRONG", "op %zu %s on atomic<%s>: returned %d, std::atomic returns %d (expected %s, current %s)", i,
                      kOpNames[op.kind], kTypeNames[type], ra ? 1 : 0, rr ? 1 : 0, Show(exp_before).c_str(), Show(cur).c_str());
          }
        } break;
        case kAssign:
          // operator=(T) of the wrapper is hidden by the implicitly deleted copy assignment of its derived classes for
          // most T (seen in passing, not part of the statement): exercised only where it is reachable
          if constexpr (std::is_assignable_v<A&, T>) {
            got = (a = x);
            want = (ref = x);
            have_ret = true;
          }
          break;
        case kConvert: got = static_cast<T>(a); want = static_cast<T>(ref); have_ret = true; break;
        default: break;
      }
      if constexpr (kArith) {
        switch (op.kind) {
          case kFetchAdd: got = a.fetch_add(arg, order); want = ref.fetch_add(arg, order); have_ret = true; break;
          case kFetchSub: got = a.fetch_sub(arg, order); want = ref.fetch_sub(arg, order); have_ret = true; break;
          case kAddAssign: got = (a += arg); want = (ref += arg); have_ret = true; break;
          case kSubAssign: got = (a -= arg); want = (ref -= arg); have_ret = true; break;
          default: break;
        }
      }
      if constexpr (kBits) {
        switch (op.kind) {
          case kFetchAnd: got = a.fetch_and(arg, order); want = ref.fetch_and(arg, order); have_ret = true; break;
          case kFetchOr: got = a.fetch_or(arg, order); want = ref.fetch_or(arg, order); have_ret = true; break;
          case kFetchXor: got = a.fetch_xor(arg, order); want = ref.fetch_xor(arg, order); have_ret = true; break;
          case kAndAssign: got = (a &= arg); want = (ref &= arg); have_ret = true; break;
          case kOrAssign: got = (a |= arg); want = (ref |= arg); have_ret = true; break;
          case kXorAssign: got = (a ^= arg); want = (ref ^= arg); have_ret = true; break;
          default: break;
        }
      }
      if constexpr (kIncDec) {
        switch (op.kind) {
          case kPreInc: got = ++a; want = ++ref; have_ret = true; break;
          case kPostInc: got = a++; want = ref++; have_ret = true; break;
          case kPreDec: got = --a; want = --ref; have_ret = true; break;
          case kPostDec: got = a--; want = ref--; have_ret = true; break;
          default: break;
        }
      }
      if (op.kind == kFence) {
        yaclib_std::atomic_thread_fence(order);
        yaclib_std::atomic_signal_fence(order);
      }
      if (sim::Failed()) {
        break;
      }
      // Results of floating-point arithmetic that are NaN on both sides count as equal whatever their sign/payload bits:
      // which NaN an addition produces depends on operand order and constant folding, not on the atomic. Everything else
      // (load/store/exchange/CAS, all integral and pointer results) must match bit for bit.
      const bool float_arith = std::is_floating_point_v<T> && op.kind >= kFetchAdd && op.kind <= kSubAssign;
      auto same = [&](const T& x, const T& y) {
        if (SameBits(x, y)) {
          return true;
        }
        if constexpr (std::is_floating_point_v<T>) {
          return float_arith && std::isnan(x) && std::isnan(y);
        }
        return false;
      };
      if (have_ret && !same(got, want)) {
        Mismatch(i, "the returned value", got, want);
        break;
      }
      const T stored_a = a.load();
      const T stored_r = ref.load();
      if (!same(stored_a, stored_r)) {
        Mismatch(i, "the stored value afterwards", stored_a, stored_r);
        break;
      }
      if (!SameBits(stored_a, stored_r)) {
        ref.store(stored_a);  // two NaNs: continue from identical bits
      }
      ++executed;
    }
  }

  template <typename F>
  void RunFlag() {
    F f;
    std::atomic_flag ref = ATOMIC_FLAG_INIT;
    f.clear();
    for (std::size_t i = 0; i < ops.size() && !sim::Failed(); ++i) {
      const Op& op = ops[i];
      const std::memory_order order = kOrders[op.o1 % 6];
      if ((op.kind % 3) == 0) {
        const bool got = f.test_and_set(order);
        const bool want = ref.test_and_set(order);
        if (got != want) {
          sim::Fail("DIFFERS_FROM_STD", "op %zu atomic_flag::test_and_set returned %d, std gives %d", i, got ? 1 : 0, want ? 1 : 0);
        }
      } else if ((op.kind % 3) == 1) {
        f.clear(StoreOrder(op.o1));
        ref.clear(StoreOrder(op.o1));
      } else {
        yaclib_std::atomic_thread_fence(order);
      }
      ++executed;
    }
  }

  template <typename T>
  void RunType() {
    if (thread_wrapper) {
      RunSeq<T, yaclib::detail::Atomic<std::atomic<T>, T>>();
    } else {
      RunSeq<T, yaclib_std::atomic<T>>();
    }
  }

  void Run() final {
    bool done = false;
    // an idle bystander: injected yields at the wrapper's injection points switch to it and back
    yaclib_std::thread bystander{[&done] {
      while (!done) {
        sim::Yield();
      }
    }};
    switch (type) {
      case kBool: RunType<bool>(); break;
      case kI8: RunType<std::int8_t>(); break;
      case kU8: RunType<std::uint8_t>(); break;
      case kI16: RunType<std::int16_t>(); break;
      case kU16: RunType<std::uint16_t>(); break;
      case kI32: RunType<std::int32_t>(); break;
      case kU32: RunType<std::uint32_t>(); break;
      case kI64: RunType<std::int64_t>(); break;
      case kU64: RunType<std::uint64_t>(); break;
      case kPtr: RunType<int*>(); break;
      case kFloat: RunType<float>(); break;
      case kDouble: RunType<double>(); break;
      default:
        if (thread_wrapper) {
          RunFlag<yaclib::detail::AtomicFlag<std::atomic_flag>>();
        } else {
          RunFlag<yaclib_std::atomic_flag>();
        }
        break;
    }
    done = true;
    bystander.join();
  }

  void Finish() final {
    if (sim::Failed()) {
      return;
    }
    char name[64];
    std::snprintf(name, sizeof name, "cell_%s_%s", kTypeNames[type], thread_wrapper ? "thread_wrapper" : "fiber");
    sim::CountDyn(name);
    for (auto& op : ops) {
      std::snprintf(name, sizeof name, "cell_op_%s", kOpNames[op.kind]);
      sim::CountDyn(name);
    }
  }

  int type = 0;
  bool thread_wrapper = false;
  std::vector<Op> ops;
  std::uint32_t initial = 0;
  std::uint64_t executed = 0;
};

}  // namespace

SIM_HARNESS("C19", "c19_atomic", Case, "DIFFERS_FROM_STD WEAK_CAS_WRONG STRONG_CAS_WRONG CRASH:*")
