// Simulator core: explorer (answers the YACLIB_VERIF hooks), run wrapper, ledger, worker modes, gate helpers, minimiser.
// This translation unit is never sancov-instrumented (it is the observer, not the observed).
#include "sim.hpp"

#include <yaclib/fault/config.hpp>
#include <yaclib/fault/detail/fiber/scheduler.hpp>
#include <yaclib/fault/inject.hpp>
#include <yaclib/fault/verif_hook.hpp>

#include <algorithm>
#include <cerrno>
#include <chrono>
#include <csignal>
#include <cstdlib>
#include <cstring>
#include <exception>
#include <map>
#include <new>
#include <set>
#include <string>
#include <fcntl.h>
#include <sys/mman.h>
#include <sys/wait.h>
#include <typeinfo>
#include <unistd.h>
#include <unordered_map>
#include <vector>
#include <yaclib_std/thread>

#ifndef YACLIB_VERIF
#  error "the simulator needs the YACLIB_VERIF hooks"
#endif

#if defined(__has_feature)
#  if __has_feature(address_sanitizer)
#    define SIM_ASAN 1
#  endif
#endif
#ifndef SIM_ASAN
#  define SIM_ASAN 0
#endif
#ifndef SIM_RACE
#  define SIM_RACE 0
#endif

#if SIM_ASAN
extern "C" const char* __asan_get_report_description();
extern "C" int __asan_report_present();
#endif

namespace sim {

// =============================================================================================== PRNG
static inline std::uint64_t SplitMix(std::uint64_t& x) noexcept {
  std::uint64_t z = (x += 0x9E3779B97F4A7C15ULL);
  z = (z ^ (z >> 30)) * 0xBF58476D1CE4E5B9ULL;
  z = (z ^ (z >> 27)) * 0x94D049BB133111EBULL;
  return z ^ (z >> 31);
}
std::uint64_t Mix(std::uint64_t a, std::uint64_t b) noexcept {
  std::uint64_t x = a * 0xD6E8FEB86659FD93ULL + b + 0x1234567;
  SplitMix(x);
  return SplitMix(x) ^ (b << 1);
}
void Rng::Seed(std::uint64_t seed) noexcept {
  std::uint64_t x = seed;
  s0 = SplitMix(x);
  s1 = SplitMix(x);
  if ((s0 | s1) == 0) {
    s1 = 1;
  }
}
std::uint64_t Rng::Next() noexcept {
  const std::uint64_t a = s0;
  std::uint64_t b = s1;
  const std::uint64_t r = a + b;
  b ^= a;
  s0 = ((a << 24) | (a >> 40)) ^ b ^ (b << 16);
  s1 = (b << 37) | (b >> 27);
  return r;
}

std::uint32_t Gen::Draw(std::uint32_t n) {
  if (n <= 1) {
    n = 1;
  }
  std::uint32_t v;
  if (replay) {
    v = pos < tape.size() ? tape[pos] % n : 0;
    ++pos;
  } else {
    v = rng.Below(n);
    tape.push_back(v);
    ++pos;
  }
  desc_hash = (desc_hash ^ (v + 1)) * 1099511628211ULL;
  desc_hash ^= desc_hash >> 29;
  return v;
}

Json& Json::Str(const char* v) {
  Sep();
  s += '"';
  for (const char* p = v; *p != 0; ++p) {
    const unsigned char c = static_cast<unsigned char>(*p);
    if (c == '"' || c == '\\') {
      s += '\\';
      s += static_cast<char>(c);
    } else if (c < 0x20) {
      char buf[8];
      std::snprintf(buf, sizeof buf, "\\u%04x", c);
      s += buf;
    } else {
      s += static_cast<char>(c);
    }
  }
  s += '"';
  return *this;
}

// =============================================================================================== ledger
namespace {

struct Hdr {
  std::uint64_t epoch;
  std::uint64_t size;
};
static_assert(sizeof(Hdr) == 16);

bool gQuarantine = false;
void** gParked = nullptr;
std::size_t gParkedN = 0, gParkedCap = 0;
std::uint64_t gEpoch = 1;  // 0 = never attributed
long long gLive = 0;
int gUntracked = 1;  // start untracked: static init, main()
constexpr std::uint64_t kFreed = 0xDEADDEADDEADDEADULL;

}  // namespace

#if SIM_RACE
namespace hb {
void ClearRange(std::uintptr_t a, std::size_t n) noexcept;
void FreeRange(std::uintptr_t a, std::size_t n, const void* pc) noexcept;
}
#endif

static void* LedgerAlloc(std::size_t n) noexcept {
  auto* h = static_cast<Hdr*>(std::malloc(n + sizeof(Hdr)));
  if (h == nullptr) {
    std::fprintf(stderr, "sim: out of memory\n");
    std::abort();
  }
  h->epoch = gUntracked != 0 ? 0 : gEpoch;
  h->size = n;
  if (h->epoch != 0) {
    ++gLive;
  }
  return h + 1;
}
static void LedgerFree(void* p) noexcept {
  if (p == nullptr) {
    return;
  }
  auto* h = static_cast<Hdr*>(p) - 1;
  if (h->epoch == gEpoch) {
    --gLive;
  }
#if SIM_RACE
  if (gQuarantine) {
    hb::FreeRange(reinterpret_cast<std::uintptr_t>(p), h->size, __builtin_return_address(0));
  } else {
    hb::ClearRange(reinterpret_cast<std::uintptr_t>(p), h->size);
  }
#endif
  h->epoch = kFreed;
  if (gQuarantine) {
    // parked, not reused, and scribbled over: whoever still reads the block (a destructor that runs late, a callback list walked
    // after the node died) finds garbage instead of the last contents
    std::memset(p, 0xFB, h->size);
    if (gParkedN == gParkedCap) {
      gParkedCap = gParkedCap == 0 ? 4096 : gParkedCap * 2;
      gParked = static_cast<void**>(std::realloc(gParked, gParkedCap * sizeof(void*)));
    }
    gParked[gParkedN++] = h;
    return;
  }
  std::free(h);
}

void QuarantineFrees(bool on) noexcept {
  gQuarantine = on;
  if (!on) {
    for (std::size_t i = 0; i < gParkedN; ++i) {
      std::free(gParked[i]);
    }
    gParkedN = 0;
  }
}

long long LedgerLive() noexcept {
  return gLive;
}
Untracked::Untracked() noexcept {
  ++gUntracked;
}
Untracked::~Untracked() noexcept {
  --gUntracked;
}

}  // namespace sim

#ifndef SIM_NO_LEDGER
void* operator new(std::size_t n) {
  return sim::LedgerAlloc(n);
}
void* operator new[](std::size_t n) {
  return sim::LedgerAlloc(n);
}
void* operator new(std::size_t n, const std::nothrow_t&) noexcept {
  return sim::LedgerAlloc(n);
}
void* operator new[](std::size_t n, const std::nothrow_t&) noexcept {
  return sim::LedgerAlloc(n);
}
void operator delete(void* p) noexcept {
  sim::LedgerFree(p);
}
void operator delete[](void* p) noexcept {
  sim::LedgerFree(p);
}
void operator delete(void* p, std::size_t) noexcept {
  sim::LedgerFree(p);
}
void operator delete[](void* p, std::size_t) noexcept {
  sim::LedgerFree(p);
}
void operator delete(void* p, const std::nothrow_t&) noexcept {
  sim::LedgerFree(p);
}
void operator delete[](void* p, const std::nothrow_t&) noexcept {
  sim::LedgerFree(p);
}

#endif  // SIM_NO_LEDGER (diagnostic builds for valgrind: the tool replaces operator new itself)

#if SIM_ASAN
// exit code 77 classifies sanitizer reports; leaks are the ledger's job (LSan cannot see through fiber stacks anyway)
extern "C" __attribute__((used, visibility("default"))) const char* __asan_default_options() {
  return "exitcode=77:detect_leaks=0:abort_on_error=0:detect_stack_use_after_return=0:allocator_may_return_null=1:"
         "print_summary=1:handle_abort=0:handle_segv=1:symbolize=1:alloc_dealloc_mismatch=0:new_delete_type_mismatch=0";
}
#endif

namespace sim {

namespace detail {
long long gTrackedLive = 0;
std::uint64_t gTrackedCopies = 0;
std::uint64_t gTrackedMoves = 0;
}  // namespace detail

// =============================================================================================== counters
namespace {

constexpr int kMaxCounters = 2048;
struct Counters {
  char names[kMaxCounters][80];
  std::uint64_t total[kMaxCounters];    // summed over runs
  std::uint64_t runs_hit[kMaxCounters]; // number of runs in which it fired at least once
  std::uint64_t cur[kMaxCounters];
  int n = 0;
};
Counters gCounters;

}  // namespace

int CounterId(const char* name) {
  for (int i = 0; i < gCounters.n; ++i) {
    if (std::strcmp(gCounters.names[i], name) == 0) {
      return i;
    }
  }
  if (gCounters.n >= kMaxCounters) {
    std::fprintf(stderr, "sim: too many counters\n");
    std::abort();
  }
  std::snprintf(gCounters.names[gCounters.n], sizeof gCounters.names[0], "%s", name);
  return gCounters.n++;
}
void CountDyn(const char* name) {
  static std::unordered_map<std::string, int>* map = nullptr;
  Untracked u;
  if (map == nullptr) {
    map = new std::unordered_map<std::string, int>;
  }
  auto it = map->find(name);
  if (it == map->end()) {
    it = map->emplace(name, CounterId(name)).first;
  }
  gCounters.cur[it->second] += 1;
}
void CounterAdd(int id, std::uint64_t n) noexcept {
  gCounters.cur[id] += n;
}
static void CountersEndRun(bool keep) {
  for (int i = 0; i < gCounters.n; ++i) {
    if (keep && gCounters.cur[i] != 0) {
      gCounters.total[i] += gCounters.cur[i];
      gCounters.runs_hit[i] += 1;
    }
    gCounters.cur[i] = 0;
  }
}

// =============================================================================================== run record
namespace {

constexpr std::uint32_t kMaxChoices = 1U << 19;
constexpr std::uint32_t kMaxTape = 1U << 14;
constexpr int kMaxFibers = 96;
constexpr std::uint32_t kFairK = 256;

struct RunRecord {
  std::uint32_t state;  // 0 idle, 1 running, 2 finished
  std::uint32_t run_no;
  char cls[64];
  char msg[480];
  char extra[128];  // sanitizer description / terminate reason
  std::uint64_t fail_seq;
  std::uint64_t hash;
  std::uint64_t steps;
  std::uint64_t switches;
  std::uint64_t sim_ns;
  std::uint64_t races;
  std::uint32_t nfibers;
  std::uint32_t strategy;  // packed strategy parameters
  std::uint32_t n_choices;
  std::uint32_t choices_overflow;
  std::uint32_t n_tape;
  std::uint64_t desc_hash;
  std::uint64_t ckey[kMaxChoices];
  std::uint32_t cval[kMaxChoices];
  std::uint32_t tape[kMaxTape];
};

RunRecord* gRec = nullptr;

RunRecord* MapRecord(bool shared) {
  void* p = mmap(nullptr, sizeof(RunRecord), PROT_READ | PROT_WRITE, (shared ? MAP_SHARED : MAP_PRIVATE) | MAP_ANONYMOUS,
                 -1, 0);
  if (p == MAP_FAILED) {
    std::perror("mmap");
    std::exit(2);
  }
  return static_cast<RunRecord*>(p);
}

// --------------------------------------------------------------------------------------------- explorer
enum Kind : std::uint64_t { kInj = 1, kPick = 2, kCas = 3, kSpur = 4, kRand = 5 };
inline std::uint64_t KeyOf(Kind k, int slot, std::uint64_t counter) noexcept {
  return (static_cast<std::uint64_t>(k) << 60) | (static_cast<std::uint64_t>(slot & 0xFFF) << 48) |
         (counter & 0xFFFFFFFFFFFFULL);
}

struct Strategy {
  std::uint32_t inj_den = 0;    // preempt with probability 1/inj_den at every injection point (0: never)
  std::uint32_t pick_run = 0;   // 0 front (FIFO), 1 uniform, 2 uniform with probability 1/4
  std::uint32_t pick_wait = 0;  // same, for notify_one / unlock waiter choice
  std::uint32_t cas_den = 0;    // spurious weak-CAS failure probability 1/cas_den
  std::uint32_t spur_den = 0;   // spurious condvar wake-up probability 1/spur_den
  std::uint32_t jitter = 0;     // 0: no timed-wait jitter, 1: uniform in [0, max)
  std::uint32_t Pack() const noexcept {
    return inj_den | (pick_run << 8) | (pick_wait << 10) | (cas_den << 12) | (spur_den << 18) | (jitter << 24);
  }
};

struct Explorer {
  bool active = false;
  bool replay = false;
  Rng rng;
  Strategy st;
  std::uint64_t steps = 0;
  std::uint64_t budget = 0;
  std::uint32_t consec = 0;
  int cur = 0;
  bool in_sched = true;
  std::uint64_t ids[kMaxFibers];
  int nfibers = 0;
  std::uint64_t inj_count[kMaxFibers];
  std::uint64_t cas_count[kMaxFibers];
  std::uint64_t spur_count[kMaxFibers];
  std::uint64_t pick_count = 0;
  std::uint64_t rand_count = 0;
  std::uint64_t hash = 0;
  std::uint64_t switches = 0;
  std::uint64_t seq = 0;
  std::unordered_map<std::uint64_t, std::uint32_t>* rep = nullptr;
  // fault fire counts of this run
  std::uint64_t f_preempt = 0, f_forced = 0, f_cas = 0, f_spur = 0, f_jitter = 0, f_pick = 0;
};
Explorer gEx;
bool gFailed = false;
CaseBase* gCurCase = nullptr;

void SetClass(const char* cls) {
  const char* tag = gCurCase != nullptr ? gCurCase->ClassTag() : nullptr;
  if (tag != nullptr && tag[0] != 0) {
    std::snprintf(gRec->cls, sizeof gRec->cls, "%s:%s", cls, tag);
  } else {
    std::snprintf(gRec->cls, sizeof gRec->cls, "%s", cls);
  }
}

int gMode = 0;  // 1 explore (in-process loop), 2 child of one/minimize
void (*gOnAbort)() = nullptr;

[[noreturn]] void AbortRun(int code) {
  // the fibers of this run cannot be unwound: the process ends here. Everything of value is in *gRec already.
  gRec->hash = gEx.hash;
  gRec->steps = gEx.steps;
  gRec->switches = gEx.switches;
  gRec->nfibers = static_cast<std::uint32_t>(gEx.nfibers);
  if (gOnAbort != nullptr) {
    gOnAbort();
  }
  std::fflush(stdout);
  std::fflush(stderr);
  _exit(code);
}

inline void Record(std::uint64_t key, std::uint32_t val) noexcept {
  auto& r = *gRec;
  if (r.n_choices < kMaxChoices) {
    r.ckey[r.n_choices] = key;
    r.cval[r.n_choices] = val;
    ++r.n_choices;
  } else {
    r.choices_overflow = 1;
  }
}
inline std::uint32_t Lookup(std::uint64_t key) noexcept {
  auto it = gEx.rep->find(key);
  return it == gEx.rep->end() ? 0 : it->second;
}

void StepBudgetCheck() {
  if (++gEx.steps > gEx.budget) {
    if (!gFailed) {
      gFailed = true;
      SetClass("NO_PROGRESS");
      std::snprintf(gRec->msg, sizeof gRec->msg, "scenario did not finish within %llu choice points (livelock or lost wake-up under fair scheduling)",
                    static_cast<unsigned long long>(gEx.budget));
      gRec->fail_seq = gEx.seq;
    }
    AbortRun(4);
  }
}

bool HInject() {
  auto& e = gEx;
  if (e.in_sched) {
    return false;
  }
  StepBudgetCheck();
  const std::uint64_t k = e.inj_count[e.cur]++;
  if (++e.consec > kFairK) {
    e.consec = 0;
    ++e.f_forced;
    return true;
  }
  bool v;
  if (e.replay) {
    v = Lookup(KeyOf(kInj, e.cur, k)) != 0;
  } else {
    v = e.st.inj_den != 0 && e.rng.Below(e.st.inj_den) == 0;
    if (v) {
      Record(KeyOf(kInj, e.cur, k), 1);
    }
  }
  if (v) {
    e.consec = 0;
    ++e.f_preempt;
  }
  return v;
}

std::uint64_t HPick(std::uint64_t n) {
  auto& e = gEx;
  if (n <= 1) {
    return 0;
  }
  StepBudgetCheck();
  const std::uint64_t k = e.pick_count++;
  std::uint32_t v;
  if (e.replay) {
    v = Lookup(KeyOf(kPick, 0, k)) % static_cast<std::uint32_t>(n);
  } else {
    const std::uint32_t mode = e.in_sched ? e.st.pick_run : e.st.pick_wait;
    v = 0;
    if (mode == 1 || (mode == 2 && e.rng.Below(4) == 0)) {
      v = e.rng.Below(static_cast<std::uint32_t>(n));
    }
    if (v != 0) {
      Record(KeyOf(kPick, 0, k), v);
    }
  }
  if (v != 0) {
    ++e.f_pick;
  }
  return v;
}

bool HWeakFail() {
  auto& e = gEx;
  StepBudgetCheck();
  const std::uint64_t k = e.cas_count[e.cur]++;
  bool v;
  if (e.replay) {
    v = Lookup(KeyOf(kCas, e.cur, k)) != 0;
  } else {
    v = e.st.cas_den != 0 && e.rng.Below(e.st.cas_den) == 0;
    if (v) {
      Record(KeyOf(kCas, e.cur, k), 1);
    }
  }
  if (v) {
    ++e.f_cas;
  }
  return v;
}

bool HSpurious() {
  auto& e = gEx;
  StepBudgetCheck();
  const std::uint64_t k = e.spur_count[e.cur]++;
  bool v;
  if (e.replay) {
    v = Lookup(KeyOf(kSpur, e.cur, k)) != 0;
  } else {
    v = e.st.spur_den != 0 && e.rng.Below(e.st.spur_den) == 0;
    if (v) {
      Record(KeyOf(kSpur, e.cur, k), 1);
    }
  }
  if (v) {
    ++e.f_spur;
  }
  return v;
}

std::uint64_t HRand(std::uint64_t max) {
  auto& e = gEx;
  if (max <= 1) {
    return 0;
  }
  StepBudgetCheck();
  const std::uint64_t k = e.rand_count++;
  std::uint32_t v;
  const std::uint32_t m = max > 0xFFFFFFFFULL ? 0xFFFFFFFFU : static_cast<std::uint32_t>(max);
  if (e.replay) {
    v = Lookup(KeyOf(kRand, 0, k)) % m;
  } else {
    v = e.st.jitter != 0 ? e.rng.Below(m) : 0;
    if (v != 0) {
      Record(KeyOf(kRand, 0, k), v);
    }
  }
  if (v != 0) {
    ++e.f_jitter;
  }
  return v;
}

int SlotOf(std::uint64_t id) {
  auto& e = gEx;
  for (int i = 0; i < e.nfibers; ++i) {
    if (e.ids[i] == id) {
      return i;
    }
  }
  if (e.nfibers >= kMaxFibers) {
    std::fprintf(stderr, "sim: more than %d fibers in one run\n", kMaxFibers);
    std::fflush(stderr);
    _exit(2);
  }
  e.ids[e.nfibers] = id;
  e.inj_count[e.nfibers] = e.cas_count[e.nfibers] = e.spur_count[e.nfibers] = 0;
  return e.nfibers++;
}

}  // namespace

#if SIM_RACE
namespace hb {
void Reset() noexcept;
void OnResume(int slot) noexcept;
void OnSuspend() noexcept;
void OnFiber(int ev, int self, int other, void* stack, std::size_t size) noexcept;
void AtomicDesc(const void* addr, std::size_t size, int op, int order, int order_fail, const void* expected) noexcept;
void OpNow() noexcept;
void OnFence(int order) noexcept;
void OnMutex(const void* m, int ev) noexcept;
void Access(const void* addr, std::size_t size, bool write, const void* pc) noexcept;
std::uint64_t Accesses() noexcept;
std::uint64_t Races() noexcept;
void SetEnabled(bool on) noexcept;
}  // namespace hb
#endif

namespace {

void HResume(std::uint64_t id) {
  auto& e = gEx;
  const int s = SlotOf(id);
  if (s != e.cur) {
    ++e.switches;
  }
  e.cur = s;
  e.consec = 0;
  e.in_sched = false;
  e.hash = (e.hash ^ static_cast<std::uint64_t>(s + 1)) * 1099511628211ULL;
#if SIM_RACE
  hb::OnResume(s);
#endif
}
void HSuspend() {
  gEx.in_sched = true;
#if SIM_RACE
  hb::OnSuspend();
#endif
}

#if SIM_RACE
void HFiber(int ev, std::uint64_t self, std::uint64_t other, void* stack, std::size_t size) {
  const int a = self == static_cast<std::uint64_t>(-1) ? -1 : SlotOf(self);
  const int b = (ev == yaclib::verif::kCreate || ev == yaclib::verif::kJoin) ? SlotOf(other) : -1;
  hb::OnFiber(ev, a, b, stack, size);
}
#endif

yaclib::verif::Hooks gHooksTable;

void InstallHooks() {
  auto& h = gHooksTable;
  h = yaclib::verif::Hooks{};
  h.inject = HInject;
  h.pick = HPick;
  h.weak_fail = HWeakFail;
  h.rand = HRand;
  h.spurious_wakeup = HSpurious;
  h.on_resume = HResume;
  h.on_suspend = HSuspend;
#if SIM_RACE
  h.on_fiber = HFiber;
  h.atomic_desc = hb::AtomicDesc;
  h.op_now = hb::OpNow;
  h.on_fence = hb::OnFence;
  h.on_mutex = hb::OnMutex;
#endif
  yaclib::verif::gHooks = &h;
}
void UninstallHooks() {
  yaclib::verif::gHooks = nullptr;
}

}  // namespace

// =============================================================================================== run-time API
void Fail(const char* cls, const char* fmt, ...) {
  if (gFailed) {
    return;
  }
  gFailed = true;
  auto& r = *gRec;
  SetClass(cls);
  va_list ap;
  va_start(ap, fmt);
  std::vsnprintf(r.msg, sizeof r.msg, fmt, ap);
  va_end(ap);
  r.fail_seq = gEx.seq;
}
bool Failed() noexcept {
  return gFailed;
}
std::uint64_t Seq() noexcept {
  return ++gEx.seq;
}
int Fiber() noexcept {
  return gEx.cur;
}
std::uint64_t NowNs() noexcept {
  auto* s = yaclib::fault::Scheduler::GetScheduler();
  return s != nullptr ? s->GetTimeNs() : 0;
}
void Point() noexcept {
  if (gEx.active) {
    yaclib::InjectFault();
  }
}
void Yield() noexcept {
  yaclib::fault::Scheduler::RescheduleCurrent();
}
void SleepNs(std::uint64_t ns) {
  auto* s = yaclib::fault::Scheduler::GetScheduler();
  s->Sleep(s->GetTimeNs() + ns);
}
void Digest(std::uint64_t v) noexcept {
  gEx.hash = (gEx.hash ^ (v + 0x9E3779B97F4A7C15ULL)) * 1099511628211ULL;
  gEx.hash ^= gEx.hash >> 31;
}
void OverrideStats(std::uint32_t fibers, std::uint64_t switches, std::uint64_t steps) noexcept {
  gEx.nfibers = static_cast<int>(fibers > kMaxFibers ? kMaxFibers : fibers);
  gEx.switches = switches;
  gEx.steps = steps;
}
void Die(const char* cls, const char* msg) {
  if (!gFailed) {
    gFailed = true;
    SetClass(cls);
    std::snprintf(gRec->msg, sizeof gRec->msg, "%s", msg);
  }
  AbortRun(3);
}
static bool gThorough = false;
bool Thorough() noexcept {
  return gThorough;
}
static std::string gProfile;
const char* Profile() noexcept {
  return gProfile.c_str();
}
void RaceRead(const void* addr, std::size_t size) noexcept {
#if SIM_RACE
  hb::Access(addr, size, false, __builtin_return_address(0));
#else
  (void)addr;
  (void)size;
#endif
}
void RaceWrite(const void* addr, std::size_t size) noexcept {
#if SIM_RACE
  hb::Access(addr, size, true, __builtin_return_address(0));
#else
  (void)addr;
  (void)size;
#endif
}
bool RaceBuild() noexcept {
  return SIM_RACE != 0;
}

// =============================================================================================== executing one case
namespace {

const HarnessInfo* gInfo = nullptr;

struct RunInput {
  // record mode: tape generated from gen_seed, schedule from sched_seed. replay mode: explicit tape (+ choices).
  bool replay_tape = false;
  bool replay_choices = false;
  std::uint64_t gen_seed = 0;
  std::uint64_t sched_seed = 0;
  std::vector<std::uint32_t> tape;
  std::vector<std::pair<std::uint64_t, std::uint32_t>> choices;
};

struct RunOutput {
  bool skipped_known = false;
  const char* known_key = nullptr;
  std::string describe;
};

std::set<std::string> gKnownEnabled;
std::string gProbeKnown;  // --probe-known KEY: run only the cases of this known-finding cell
bool gWantDescribe = false;

Strategy DrawStrategy(Rng& r) {
  Strategy s;
  static const std::uint32_t dens[] = {2, 4, 8, 16, 32, 64, 128, 0};
  s.inj_den = dens[r.Below(8)];
  const std::uint32_t p = r.Below(10);
  s.pick_run = p < 4 ? 0 : (p < 7 ? 1 : 2);
  s.pick_wait = r.Below(2);
  const std::uint32_t c = r.Below(4);
  s.cas_den = c < 2 ? 0 : (c == 2 ? 16 : 4);
  s.spur_den = r.Below(5) < 3 ? 0 : 8;
  s.jitter = r.Below(5) < 3 ? 0 : 1;
  return s;
}

void ResetRecord() {
  auto& r = *gRec;
  r.state = 1;
  r.cls[0] = 0;
  r.msg[0] = 0;
  r.extra[0] = 0;
  r.fail_seq = 0;
  r.hash = r.steps = r.switches = r.sim_ns = r.races = 0;
  r.nfibers = 0;
  r.n_choices = 0;
  r.choices_overflow = 0;
  r.n_tape = 0;
}

std::unordered_map<std::uint64_t, std::uint32_t> gReplayMap;

// Runs one case to completion (or dies trying). Result in *gRec. Returns false if the case was skipped (known cell).
bool ExecuteCase(const RunInput& in, RunOutput& out) {
  ResetRecord();
  ++gRec->run_no;
  gFailed = false;
  CaseBase* c = gInfo->make();
  Gen g;
  g.replay = in.replay_tape;
  if (in.replay_tape) {
    g.tape = in.tape;
  } else {
    g.rng.Seed(in.gen_seed);
  }
  c->Generate(g);
  if (!in.replay_tape) {
    // normal form: the tape as drawn
  }
  const std::size_t used = std::min<std::size_t>(g.pos, kMaxTape);
  gRec->n_tape = static_cast<std::uint32_t>(used);
  gRec->desc_hash = g.desc_hash;
  for (std::size_t i = 0; i < used; ++i) {
    gRec->tape[i] = i < g.tape.size() ? g.tape[i] : 0;
  }
  if (gWantDescribe) {
    Json j;
    j.Obj();
    c->Describe(j);
    j.End();
    out.describe = j.s;
  }
  gCurCase = c;
  const char* key = c->Known();
  out.known_key = key;
  if (!gProbeKnown.empty() && gMode == 1 && (key == nullptr || gProbeKnown != key)) {
    out.skipped_known = true;
    out.known_key = "";
    gCurCase = nullptr;
    delete c;
    gRec->state = 0;
    return false;
  }
  if (key != nullptr && gKnownEnabled.count(key) != 0 && gMode == 1) {
    out.skipped_known = true;
    gCurCase = nullptr;
    delete c;
    gRec->state = 0;
    return false;
  }

  auto& e = gEx;
  e = Explorer{};
  e.replay = in.replay_choices;
  e.budget = c->StepBudget();
  e.cur = 0;
  e.hash = 1469598103934665603ULL;
  if (in.replay_choices) {
    gReplayMap.clear();
    for (auto& kv : in.choices) {
      gReplayMap[kv.first] = kv.second;
      Record(kv.first, kv.second);  // the record always holds the schedule that is being executed
    }
    e.rep = &gReplayMap;
  } else {
    e.rng.Seed(in.sched_seed);
    e.st = DrawStrategy(e.rng);
  }
  gRec->strategy = e.st.Pack();
  const long long tracked_base = detail::gTrackedLive;
#if SIM_RACE
  hb::Reset();
#endif

  ++gEpoch;
  gLive = 0;
  // no heap address is handed out twice within a run: CAS outcomes in pointer-comparing lock-free code then cannot
  // depend on the allocator's history in this process (ABA), so a replay in another process takes the same path
  QuarantineFrees(true);
  bool finished = false;
  std::uint64_t sim_ns = 0;
  {
    yaclib::fault::Scheduler sched;
    yaclib::fault::Scheduler::Set(&sched);
    e.active = true;
    InstallHooks();
    --gUntracked;  // from here on allocations belong to the run
#if SIM_RACE
    hb::SetEnabled(true);
#endif
    try {
      yaclib_std::thread root{[&] {
        c->Run();
        finished = true;
      }};
#if SIM_RACE
      hb::SetEnabled(false);
#endif
      ++gUntracked;
      UninstallHooks();
      e.active = false;
      if (!finished) {
        if (!gFailed) {
          gFailed = true;
          SetClass("DEADLOCK");
          std::snprintf(gRec->msg, sizeof gRec->msg,
                        "nothing runnable and nothing sleeping, but the scenario has not finished: some fiber is parked forever "
                        "(lost wake-up / lost completion)");
          gRec->fail_seq = e.seq;
        }
        AbortRun(3);
      }
      --gUntracked;
      root.join();
      ++gUntracked;
    } catch (...) {
      ++gUntracked;
      UninstallHooks();
      e.active = false;
      if (!gFailed) {
        gFailed = true;
        std::snprintf(gRec->cls, sizeof gRec->cls, "CRASH:EXCEPTION_ESCAPED");
        std::snprintf(gRec->msg, sizeof gRec->msg, "an exception escaped a fiber");
      }
      AbortRun(5);
    }
    sim_ns = sched.GetTimeNs();
    --gUntracked;
  }
  ++gUntracked;
  yaclib::fault::Scheduler::Set(nullptr);
  QuarantineFrees(false);
  c->Finish();
  char tagbuf[48] = {0};
  if (const char* tag = c->ClassTag()) {
    std::snprintf(tagbuf, sizeof tagbuf, "%s", tag);
  }
  gCurCase = nullptr;
  delete c;
  struct TagOnly final : CaseBase {
    const char* t;
    void Generate(Gen&) final {
    }
    void Describe(Json&) const final {
    }
    void Run() final {
    }
    const char* ClassTag() const final {
      return t;
    }
  } tag_only;
  tag_only.t = tagbuf;
  gCurCase = &tag_only;
  if (!gFailed && detail::gTrackedLive != tracked_base) {
    Fail(detail::gTrackedLive > tracked_base ? "LEAK_OBJECT" : "OVER_DESTROY",
         "%lld Tracked objects (payloads / functor captures) still alive at quiescence", detail::gTrackedLive - tracked_base);
  }
  if (!gFailed && gLive != 0) {
    Fail("LEAK", "%lld heap blocks allocated during the run are still live at quiescence", gLive);
  }
  gCurCase = nullptr;
  auto& r = *gRec;
  r.hash = e.hash;
  r.steps = e.steps;
  r.switches = e.switches;
  r.sim_ns = sim_ns;
  r.nfibers = static_cast<std::uint32_t>(e.nfibers);
#if SIM_RACE
  r.races = hb::Races();
#endif
  r.state = 2;
  return true;
}

// ------------------------------------------------------------------------------------------- json in/out helpers
void AppendResultJson(Json& j, const RunRecord& r, bool with_schedule) {
  j.KV("class", r.cls[0] != 0 ? r.cls : "ok");
  j.KV("message", r.msg);
  if (r.extra[0] != 0) {
    j.KV("extra", r.extra);
  }
  char hb[32];
  std::snprintf(hb, sizeof hb, "%016llx", static_cast<unsigned long long>(r.hash));
  j.KV("hash", hb);
  j.KV("steps", static_cast<unsigned long long>(r.steps));
  j.KV("switches", static_cast<unsigned long long>(r.switches));
  j.KV("fibers", r.nfibers);
  j.KV("sim_ns", static_cast<unsigned long long>(r.sim_ns));
  j.KV("fail_seq", static_cast<unsigned long long>(r.fail_seq));
  j.KV("strategy", r.strategy);
  j.KV("fair_k", kFairK);
  if (with_schedule) {
    j.Key("tape").Arr();
    for (std::uint32_t i = 0; i < r.n_tape; ++i) {
      j.Num(r.tape[i]);
    }
    j.EndArr();
    j.Key("choices").Arr();
    for (std::uint32_t i = 0; i < r.n_choices; ++i) {
      j.Arr().U64(r.ckey[i]).Num(r.cval[i]).EndArr();
    }
    j.EndArr();
    j.KV("choices_overflow", r.choices_overflow != 0);
  }
}

std::string ReadFile(const char* path) {
  std::string s;
  FILE* f = std::fopen(path, "rb");
  if (f == nullptr) {
    std::fprintf(stderr, "sim: cannot open %s\n", path);
    std::exit(2);
  }
  char buf[65536];
  std::size_t n;
  while ((n = std::fread(buf, 1, sizeof buf, f)) > 0) {
    s.append(buf, n);
  }
  std::fclose(f);
  return s;
}

// extremely small JSON field scanners for our own replay files
bool FindKey(const std::string& s, const char* key, std::size_t& pos) {
  std::string k = std::string("\"") + key + "\"";
  auto p = s.find(k);
  if (p == std::string::npos) {
    return false;
  }
  p = s.find(':', p + k.size());
  if (p == std::string::npos) {
    return false;
  }
  pos = p + 1;
  return true;
}
std::vector<std::uint64_t> ParseFlatInts(const std::string& s, std::size_t pos) {
  // parses [ ... ] possibly nested one level, returns all integers in order
  std::vector<std::uint64_t> out;
  while (pos < s.size() && s[pos] != '[') {
    ++pos;
  }
  int depth = 0;
  for (; pos < s.size(); ++pos) {
    const char ch = s[pos];
    if (ch == '[') {
      ++depth;
    } else if (ch == ']') {
      if (--depth == 0) {
        break;
      }
    } else if (ch >= '0' && ch <= '9') {
      std::uint64_t v = 0;
      while (pos < s.size() && s[pos] >= '0' && s[pos] <= '9') {
        v = v * 10 + static_cast<std::uint64_t>(s[pos] - '0');
        ++pos;
      }
      out.push_back(v);
      --pos;
    }
  }
  return out;
}
std::string ParseString(const std::string& s, const char* key) {
  std::size_t pos;
  if (!FindKey(s, key, pos)) {
    return "";
  }
  auto a = s.find('"', pos);
  if (a == std::string::npos) {
    return "";
  }
  std::string out;
  for (std::size_t i = a + 1; i < s.size() && s[i] != '"'; ++i) {
    if (s[i] == '\\' && i + 1 < s.size()) {
      ++i;
    }
    out += s[i];
  }
  return out;
}

bool LoadReplay(const char* path, RunInput& in, std::string* cls) {
  const std::string s = ReadFile(path);
  std::size_t pos;
  if (!FindKey(s, "tape", pos)) {
    std::fprintf(stderr, "sim: %s has no tape\n", path);
    return false;
  }
  in.replay_tape = true;
  for (auto v : ParseFlatInts(s, pos)) {
    in.tape.push_back(static_cast<std::uint32_t>(v));
  }
  in.replay_choices = true;
  if (FindKey(s, "choices", pos)) {
    auto flat = ParseFlatInts(s, pos);
    for (std::size_t i = 0; i + 1 < flat.size(); i += 2) {
      in.choices.emplace_back(flat[i], static_cast<std::uint32_t>(flat[i + 1]));
    }
  }
  if (cls != nullptr) {
    *cls = ParseString(s, "class");
  }
  return true;
}

// ------------------------------------------------------------------------------------------- forked single run
struct ChildResult {
  std::string cls;  // "ok" or violation class
  std::string describe;
};

void TerminateHandler() {
  if (gRec != nullptr) {
    const char* what = "std::terminate";
    std::snprintf(gRec->extra, sizeof gRec->extra, "%s", what);
    if (auto ep = std::current_exception()) {
      try {
        std::rethrow_exception(ep);
      } catch (const std::exception& ex) {
        std::snprintf(gRec->extra, sizeof gRec->extra, "terminate: %s: %s", typeid(ex).name(), ex.what());
      } catch (...) {
        std::snprintf(gRec->extra, sizeof gRec->extra, "terminate: unknown exception");
      }
    }
    gRec->hash = gEx.hash;
    gRec->steps = gEx.steps;
    gRec->switches = gEx.switches;
  }
  std::fflush(stdout);
  std::fflush(stderr);
  std::signal(SIGABRT, SIG_DFL);
  std::abort();
}

void CrashSignalHandler(int sig) {
  if (gRec != nullptr) {
    gRec->hash = gEx.hash;
    gRec->steps = gEx.steps;
    gRec->switches = gEx.switches;
    gRec->nfibers = static_cast<std::uint32_t>(gEx.nfibers);
  }
  std::signal(sig, SIG_DFL);
  raise(sig);
}


char gAltStack[1 << 16];
bool gQuietChildren = false;

void SnapshotProgress() {
  if (gRec != nullptr) {
    gRec->hash = gEx.hash;
    gRec->steps = gEx.steps;
    gRec->switches = gEx.switches;
    gRec->nfibers = static_cast<std::uint32_t>(gEx.nfibers);
  }
}

void InstallCrashHandlers() {
  std::set_terminate(TerminateHandler);
#if !SIM_ASAN
  stack_t ss{};
  ss.ss_sp = gAltStack;
  ss.ss_size = sizeof gAltStack;
  sigaltstack(&ss, nullptr);
  struct sigaction sa {};
  sa.sa_handler = CrashSignalHandler;
  sa.sa_flags = SA_ONSTACK | SA_NODEFER;
  sigaction(SIGSEGV, &sa, nullptr);
  sigaction(SIGBUS, &sa, nullptr);
  sigaction(SIGFPE, &sa, nullptr);
  sigaction(SIGILL, &sa, nullptr);
#endif
}

void WarmUp() {
  // Grow the fiber layer's persistent structures (stack pool vector) once, outside any measured run.
  yaclib::fault::Scheduler sched;
  yaclib::fault::Scheduler::Set(&sched);
  {
    yaclib_std::thread root{[] {
      std::vector<yaclib_std::thread> ts;
      ts.reserve(48);
      for (int i = 0; i < 48; ++i) {
        ts.emplace_back([] {
          yaclib::fault::Scheduler::RescheduleCurrent();
        });
      }
      for (auto& t : ts) {
        t.join();
      }
    }};
    root.join();
  }
  yaclib::fault::Scheduler::Set(nullptr);
}

// Runs `in` in a forked child `runs` times (the last one is the verdict; earlier ones warm the process up so that a
// LEAK verdict cannot come from first-use allocations). The child's RunRecord is shared with us and survives a crash.
std::string RunInChild(RunRecord* shared, const RunInput& in, int runs, std::string* describe) {
  std::memset(shared, 0, offsetof(RunRecord, ckey));
  int pipefd[2] = {-1, -1};
  if (describe != nullptr && pipe(pipefd) != 0) {
    std::perror("pipe");
    std::exit(2);
  }
  std::fflush(stdout);
  std::fflush(stderr);
  const pid_t pid = fork();
  if (pid < 0) {
    std::perror("fork");
    std::exit(2);
  }
  if (pid == 0) {
    gRec = shared;
    gMode = 2;
    gOnAbort = nullptr;
    if (gQuietChildren) {
      const int devnull = open("/dev/null", O_WRONLY);
      if (devnull >= 0) {
        dup2(devnull, 2);
        close(devnull);
      }
    }
    gWantDescribe = describe != nullptr;
    if (describe != nullptr) {
      close(pipefd[0]);
    }
    InstallCrashHandlers();
    if (describe != nullptr) {
      // describe before running: the run may never return (crash, deadlock)
      CaseBase* c = gInfo->make();
      Gen g;
      g.replay = in.replay_tape;
      if (in.replay_tape) {
        g.tape = in.tape;
      } else {
        g.rng.Seed(in.gen_seed);
      }
      c->Generate(g);
      Json j;
      j.Obj();
      c->Describe(j);
      j.End();
      delete c;
      (void)!write(pipefd[1], j.s.data(), j.s.size());
      close(pipefd[1]);
    }
    gWantDescribe = false;
    for (int r = 0; r < runs; ++r) {
      RunOutput out;
      ExecuteCase(in, out);
    }
    std::fflush(stdout);
    std::fflush(stderr);
    _exit(0);
  }
  if (describe != nullptr) {
    close(pipefd[1]);
    char buf[4096];
    ssize_t n;
    describe->clear();
    while ((n = read(pipefd[0], buf, sizeof buf)) > 0) {
      describe->append(buf, static_cast<std::size_t>(n));
    }
    close(pipefd[0]);
  }
  int status = 0;
  while (waitpid(pid, &status, 0) < 0 && errno == EINTR) {
  }
  std::string cls;
  if (WIFEXITED(status)) {
    const int code = WEXITSTATUS(status);
    if (code == 0) {
      cls = shared->cls[0] != 0 ? shared->cls : "ok";
    } else if (code == 3 || code == 4 || code == 5) {
      cls = shared->cls[0] != 0 ? shared->cls : "ABORTED";
    } else if (code == 77) {
      cls = std::string("CRASH:ASAN:") + (shared->extra[0] != 0 ? shared->extra + 6 : "?");
    } else {
      cls = "HARNESS_ERROR:exit" + std::to_string(code);
    }
  } else if (WIFSIGNALED(status)) {
    const int sig = WTERMSIG(status);
    cls = std::string("CRASH:") + (sig == SIGSEGV ? "SIGSEGV" : sig == SIGABRT ? "SIGABRT" : sig == SIGBUS ? "SIGBUS"
                                   : sig == SIGFPE ? "SIGFPE" : sig == SIGILL ? "SIGILL" : ("SIG" + std::to_string(sig)).c_str());
    if (shared->cls[0] != 0 && std::strncmp(shared->cls, "CRASH", 5) != 0) {
      // an oracle had already fired before the crash: the oracle's class is the more precise verdict
      cls = shared->cls;
    }
  }
  if (cls != "ok" && shared->cls[0] == 0) {
    std::snprintf(shared->cls, sizeof shared->cls, "%s", cls.c_str());
    if (shared->msg[0] == 0) {
      std::snprintf(shared->msg, sizeof shared->msg, "process died: %s %s", cls.c_str(), shared->extra);
    }
  }
  return cls;
}

int RunsFor(const std::string& cls) {
  return (cls.rfind("LEAK", 0) == 0 || cls.empty()) ? 2 : 1;
}

// violation class used for "same violation" comparisons: strip volatile detail after the second ':' for sanitizer reports
std::string ClassKey(const std::string& c) {
  // every way of dying counts as the same class while shrinking (the manifestation of memory corruption varies)
  return c.rfind("CRASH", 0) == 0 ? std::string("CRASH") : c;
}

// ------------------------------------------------------------------------------------------- argument parsing
struct Args {
  std::map<std::string, std::string> kv;
  std::vector<std::string> pos;
  const char* Get(const char* k, const char* d = nullptr) const {
    auto it = kv.find(k);
    return it == kv.end() ? d : it->second.c_str();
  }
  std::uint64_t U64(const char* k, std::uint64_t d) const {
    auto* v = Get(k);
    return v != nullptr ? std::strtoull(v, nullptr, 0) : d;
  }
  double F(const char* k, double d) const {
    auto* v = Get(k);
    return v != nullptr ? std::strtod(v, nullptr) : d;
  }
};
Args ParseArgs(int argc, char** argv, int from) {
  Args a;
  for (int i = from; i < argc; ++i) {
    std::string s = argv[i];
    if (s.rfind("--", 0) == 0) {
      std::string k = s.substr(2);
      std::string v = "1";
      auto eq = k.find('=');
      if (eq != std::string::npos) {
        v = k.substr(eq + 1);
        k = k.substr(0, eq);
      } else if (i + 1 < argc && std::strncmp(argv[i + 1], "--", 2) != 0) {
        v = argv[++i];
      }
      a.kv[k] = v;
    } else {
      a.pos.push_back(s);
    }
  }
  return a;
}

double NowWall() {
  using namespace std::chrono;
  return duration<double>(steady_clock::now().time_since_epoch()).count();
}

// ------------------------------------------------------------------------------------------- explore mode
struct ExploreStats {
  std::uint64_t runs = 0, failures = 0, nontrivial = 0, skipped_known = 0, leak_unconfirmed = 0, other_class_failures = 0;
  std::uint64_t steps = 0, switches = 0, sim_ns = 0, choices = 0, max_fibers = 0;
  std::uint64_t f_preempt = 0, f_forced = 0, f_cas = 0, f_spur = 0, f_jitter = 0, f_pick = 0;
  std::uint64_t tracked_copies = 0, tracked_moves = 0, hb_accesses = 0;
  std::uint64_t strat_inj[9] = {};
};
ExploreStats gStats;
std::vector<std::string> gOnly;
bool ClassWanted(const char* cls) {
  if (gOnly.empty()) {
    return true;
  }
  for (auto& p : gOnly) {
    if (std::strncmp(cls, p.c_str(), p.size()) == 0) {
      return true;
    }
  }
  return false;
}
std::vector<std::uint64_t> gHashes;  // (descriptor hash ^ interleaving hash) of non-trivial runs
bool gHashesSaturated = false;
std::map<std::string, std::vector<std::uint64_t>> gKnownCases;
std::vector<std::string> gSamples;
std::uint64_t gCurIndex = 0;
std::uint64_t* gStatusPage = nullptr;


void PrintStats(const char* tag, double wall) {
  Json j;
  j.Obj();
  j.KV("runs", static_cast<unsigned long long>(gStats.runs));
  j.KV("failures", static_cast<unsigned long long>(gStats.failures));
  j.KV("nontrivial", static_cast<unsigned long long>(gStats.nontrivial));
  j.KV("skipped_known", static_cast<unsigned long long>(gStats.skipped_known));
  j.KV("leak_unconfirmed", static_cast<unsigned long long>(gStats.leak_unconfirmed));
  j.KV("other_class_failures", static_cast<unsigned long long>(gStats.other_class_failures));
  j.KV("steps", static_cast<unsigned long long>(gStats.steps));
  j.KV("switches", static_cast<unsigned long long>(gStats.switches));
  j.KV("sim_ns", static_cast<unsigned long long>(gStats.sim_ns));
  j.KV("nondefault_choices", static_cast<unsigned long long>(gStats.choices));
  j.KV("max_fibers", static_cast<unsigned long long>(gStats.max_fibers));
  j.KV("next_index", static_cast<unsigned long long>(gCurIndex));
  j.KV("wall_s", static_cast<long long>(wall * 1000) / 1000);
  j.KV("hashes_saturated", gHashesSaturated);
  j.Key("faults").Obj();
  j.KV("preemption", static_cast<unsigned long long>(gStats.f_preempt));
  j.KV("forced_fair_preemption", static_cast<unsigned long long>(gStats.f_forced));
  j.KV("weak_cas_fail", static_cast<unsigned long long>(gStats.f_cas));
  j.KV("spurious_wakeup", static_cast<unsigned long long>(gStats.f_spur));
  j.KV("sleep_jitter", static_cast<unsigned long long>(gStats.f_jitter));
  j.KV("nonfifo_pick", static_cast<unsigned long long>(gStats.f_pick));
  j.End();
  j.Key("strategy_inj_den").Obj();
  static const char* names[] = {"never", "1/2", "1/4", "1/8", "1/16", "1/32", "1/64", "1/128"};
  for (int i = 0; i < 8; ++i) {
    j.KV(names[i], static_cast<unsigned long long>(gStats.strat_inj[i]));
  }
  j.End();
  j.KV("hb_plain_accesses_checked", static_cast<unsigned long long>(gStats.hb_accesses));
  j.KV("tracked_copies", static_cast<unsigned long long>(gStats.tracked_copies));
  j.KV("tracked_moves", static_cast<unsigned long long>(gStats.tracked_moves));
  j.Key("counters").Obj();
  for (int i = 0; i < gCounters.n; ++i) {
    j.Key(gCounters.names[i]).Arr().U64(gCounters.total[i]).U64(gCounters.runs_hit[i]).EndArr();
  }
  j.End();
  j.Key("known_cases").Obj();
  for (auto& kv : gKnownCases) {
    j.Key(kv.first.c_str()).Arr();
    for (auto v : kv.second) {
      j.U64(v);
    }
    j.EndArr();
  }
  j.End();
  j.Key("samples").Arr();
  for (auto& s : gSamples) {
    j.Raw(s);
  }
  j.EndArr();
  j.End();
  std::printf("%s %s\n", tag, j.s.c_str());
  std::fflush(stdout);
}

std::string DescribeTape(const std::uint32_t* tape, std::uint32_t n);
void PrintCandidate(std::uint64_t index) {
  const std::string describe = DescribeTape(gRec->tape, gRec->n_tape);
  Json j;
  j.Obj();
  j.KV("index", static_cast<unsigned long long>(index));
  AppendResultJson(j, *gRec, true);
  if (!describe.empty()) {
    j.Key("describe").Raw(describe);
  }
  j.End();
  std::printf("CAND %s\n", j.s.c_str());
  std::fflush(stdout);
}

std::string DescribeTape(const std::uint32_t* tape, std::uint32_t n) {
  CaseBase* c = gInfo->make();
  Gen g;
  g.replay = true;
  g.tape.assign(tape, tape + n);
  c->Generate(g);
  Json j;
  j.Obj();
  c->Describe(j);
  j.End();
  delete c;
  return j.s;
}
double gExploreStart = 0;
const char* gHashFile = nullptr;

void DumpHashes() {
  if (gHashFile == nullptr) {
    return;
  }
  std::sort(gHashes.begin(), gHashes.end());
  gHashes.erase(std::unique(gHashes.begin(), gHashes.end()), gHashes.end());
  FILE* f = std::fopen(gHashFile, "ab");
  if (f != nullptr) {
    std::fwrite(gHashes.data(), sizeof(std::uint64_t), gHashes.size(), f);
    std::fclose(f);
  }
}

void ExploreOnAbort() {
  // called from inside a dying run (DEADLOCK / NO_PROGRESS): report it and the statistics so far
  if (ClassWanted(gRec->cls)) {
    PrintCandidate(gCurIndex);
  } else {
    ++gStats.other_class_failures;
  }
  ++gCurIndex;
  PrintStats("STATS", NowWall() - gExploreStart);
  DumpHashes();
}

int Explore(const Args& a) {
  const std::uint64_t seed = a.U64("seed", 1);
  const std::uint64_t workers = a.U64("workers", 1);
  const std::uint64_t worker = a.U64("worker", 0);
  const std::uint64_t start = a.U64("start", worker);
  const std::uint64_t max_cases = a.U64("max-cases", ~0ULL);
  const double budget = a.F("time", 10.0);
  const std::uint64_t max_cands = a.U64("max-cands", 3);
  const std::uint64_t want_samples = a.U64("samples", 3);
  const bool print_hashes = a.Get("print-hashes") != nullptr;
  // --only A,B,...: only violation classes starting with one of these prefixes are reported by this run (the same
  // scenarios serve several properties; the other classes belong to another property's check)
  std::vector<std::string> only;
  if (const char* o = a.Get("only")) {
    std::string str = o;
    std::size_t p0 = 0;
    while (p0 <= str.size()) {
      auto q = str.find(',', p0);
      if (q == std::string::npos) {
        q = str.size();
      }
      if (q > p0) {
        only.push_back(str.substr(p0, q - p0));
      }
      p0 = q + 1;
    }
  }
  gOnly = only;
  gHashFile = a.Get("hashes");
  gProbeKnown = a.Get("probe-known", "");
  if (const char* known = a.Get("known")) {
    std::string s = known;
    std::size_t p = 0;
    while (p <= s.size()) {
      auto q = s.find(',', p);
      if (q == std::string::npos) {
        q = s.size();
      }
      if (q > p) {
        gKnownEnabled.insert(s.substr(p, q - p));
      }
      p = q + 1;
    }
  }
  if (const char* status = a.Get("status")) {
    FILE* f = std::fopen(status, "w+b");
    if (f != nullptr) {
      std::uint64_t z[2] = {~0ULL, 0};
      std::fwrite(z, sizeof z, 1, f);
      std::fflush(f);
      void* p = mmap(nullptr, 4096, PROT_READ | PROT_WRITE, MAP_SHARED, fileno(f), 0);
      if (p != MAP_FAILED) {
        gStatusPage = static_cast<std::uint64_t*>(p);
      }
    }
  }
  gMode = 1;
  gRec = MapRecord(false);
  gOnAbort = ExploreOnAbort;
  InstallCrashHandlers();
  WarmUp();
  gExploreStart = NowWall();
  double last_stats = gExploreStart;
  std::uint64_t cands = 0;
  std::uint64_t done = 0;
  gHashes.reserve(1 << 16);
  for (gCurIndex = start; done < max_cases; gCurIndex += workers, ++done) {
    const double now = NowWall();
    if (now - gExploreStart > budget) {
      break;
    }
    if (now - last_stats > 2.0) {
      PrintStats("STATS", now - gExploreStart);
      last_stats = now;
    }
    if (gStatusPage != nullptr) {
      gStatusPage[0] = gCurIndex;
    }
    const std::uint64_t case_seed = Mix(seed, gCurIndex);
    RunInput in;
    in.gen_seed = Mix(case_seed, 1);
    in.sched_seed = Mix(case_seed, 2);
    RunOutput out;
    gWantDescribe = false;
    const bool ran = ExecuteCase(in, out);
    if (!ran && out.known_key != nullptr && out.known_key[0] == 0) {
      CountersEndRun(false);
      continue;  // --probe-known: not a case of the probed cell
    }
    if (!ran) {
      ++gStats.skipped_known;
      auto& v = gKnownCases[out.known_key];
      if (v.size() < 3) {
        v.push_back(gCurIndex);
      }
      CountersEndRun(false);
      continue;
    }
    auto& r = *gRec;
    bool failed = r.cls[0] != 0;
    if (failed && (std::strcmp(r.cls, "LEAK") == 0 || std::strncmp(r.cls, "LEAK:", 5) == 0)) {
      // confirm in-process: same tape, same schedule, once more (first-use allocations cannot repeat)
      RunInput again;
      again.replay_tape = true;
      again.tape.assign(r.tape, r.tape + r.n_tape);
      again.replay_choices = true;
      for (std::uint32_t i = 0; i < r.n_choices; ++i) {
        again.choices.emplace_back(r.ckey[i], r.cval[i]);
      }
      RunOutput out2;
      CountersEndRun(false);
      ExecuteCase(again, out2);
      if (std::strcmp(r.cls, "LEAK") != 0 && std::strncmp(r.cls, "LEAK:", 5) != 0) {
        failed = r.cls[0] != 0;
        ++gStats.leak_unconfirmed;
      }
    }
    ++gStats.runs;
    gStats.steps += r.steps;
    gStats.switches += r.switches;
    gStats.sim_ns += r.sim_ns;
    gStats.choices += r.n_choices;
    gStats.max_fibers = std::max<std::uint64_t>(gStats.max_fibers, r.nfibers);
    gStats.f_preempt += gEx.f_preempt;
    gStats.f_forced += gEx.f_forced;
    gStats.f_cas += gEx.f_cas;
    gStats.f_spur += gEx.f_spur;
    gStats.f_jitter += gEx.f_jitter;
    gStats.f_pick += gEx.f_pick;
    {
      static const std::uint32_t dens[] = {0, 2, 4, 8, 16, 32, 64, 128};
      for (int i = 0; i < 8; ++i) {
        if (gEx.st.inj_den == dens[i]) {
          ++gStats.strat_inj[i];
        }
      }
    }
#if SIM_RACE
    gStats.hb_accesses += hb::Accesses();
#endif
    gStats.tracked_copies = detail::gTrackedCopies;
    gStats.tracked_moves = detail::gTrackedMoves;
    // non-trivial: at least two fibers actually interleaved (some fiber was switched away from and resumed later)
    const bool nontrivial = r.nfibers >= 2 && r.switches >= r.nfibers + 2;
    if (nontrivial) {
      ++gStats.nontrivial;
      if (gHashes.size() < (1U << 22)) {
        gHashes.push_back(Mix(r.desc_hash, r.hash));
      } else {
        gHashesSaturated = true;
      }
    }
    CountersEndRun(true);
    if (print_hashes) {
      std::printf("H %llu %016llx %llu %s\n", static_cast<unsigned long long>(gCurIndex), static_cast<unsigned long long>(r.hash),
                  static_cast<unsigned long long>(r.steps), failed ? r.cls : "ok");
    }
    if (gSamples.size() < want_samples && nontrivial) {
      Json j;
      j.Obj();
      j.KV("index", static_cast<unsigned long long>(gCurIndex));
      j.Key("scenario").Raw(DescribeTape(r.tape, r.n_tape));
      j.KV("steps", static_cast<unsigned long long>(r.steps));
      j.KV("switches", static_cast<unsigned long long>(r.switches));
      j.KV("fibers", r.nfibers);
      j.KV("nondefault_choices", r.n_choices);
      j.KV("result", failed ? r.cls : "ok");
      j.End();
      gSamples.push_back(j.s);
    }
    if (failed && !ClassWanted(r.cls)) {
      ++gStats.other_class_failures;
      failed = false;
    }
    if (failed) {
      ++gStats.failures;
      PrintCandidate(gCurIndex);
      if (++cands >= max_cands) {
        gCurIndex += workers;
        break;
      }
    }
  }
  PrintStats("STATS", NowWall() - gExploreStart);
  DumpHashes();
  std::printf("DONE\n");
  std::fflush(stdout);
  return 0;
}

// ------------------------------------------------------------------------------------------- one / replay mode
int One(const Args& a) {
  RunRecord* shared = MapRecord(true);
  RunInput in;
  std::string expect_cls;
  if (const char* file = a.Get("file")) {
    if (!LoadReplay(file, in, &expect_cls)) {
      return 2;
    }
    if (a.Get("fresh-schedule") != nullptr) {
      in.replay_choices = false;
      in.choices.clear();
      in.sched_seed = a.U64("sched-seed", 1);
    }
  } else {
    const std::uint64_t case_seed = Mix(a.U64("seed", 1), a.U64("index", 0));
    in.gen_seed = Mix(case_seed, 1);
    in.sched_seed = Mix(case_seed, 2);
  }
  WarmUp();
  const int runs = static_cast<int>(a.U64("runs", 2));
  std::string describe;
  const std::string cls = RunInChild(shared, in, runs, &describe);
  Json j;
  j.Obj();
  j.KV("property", gInfo->property);
  j.KV("harness", gInfo->name);
  j.KV("profile", gProfile);
  j.KV("tier", gThorough ? "thorough" : "quick");
  AppendResultJson(j, *shared, true);
  // the class decided by the parent (covers crashes) overrides what the child managed to write
  j.KV("verdict", cls);
  if (!describe.empty()) {
    j.Key("describe").Raw(describe);
  }
  j.End();
  std::printf("RESULT %s\n", j.s.c_str());
  return 0;
}

// ------------------------------------------------------------------------------------------- minimise
struct Minimizer {
  RunRecord* shared;
  std::string target;
  double deadline;
  int attempts = 0;
  std::vector<std::uint32_t> tape;
  std::vector<std::pair<std::uint64_t, std::uint32_t>> choices;

  bool Try(const std::vector<std::uint32_t>& t, const std::vector<std::pair<std::uint64_t, std::uint32_t>>& c) {
    if (NowWall() > deadline) {
      return false;
    }
    ++attempts;
    RunInput in;
    in.replay_tape = true;
    in.tape = t;
    in.replay_choices = true;
    in.choices = c;
    const std::string cls = RunInChild(shared, in, RunsFor(target), nullptr);
    return ClassKey(cls) == ClassKey(target);
  }
  // fresh random schedules for a changed tape
  bool TryFresh(const std::vector<std::uint32_t>& t, int n, std::vector<std::pair<std::uint64_t, std::uint32_t>>& found) {
    for (int i = 0; i < n; ++i) {
      if (NowWall() > deadline) {
        return false;
      }
      ++attempts;
      RunInput in;
      in.replay_tape = true;
      in.tape = t;
      in.replay_choices = false;
      in.sched_seed = Mix(0xABCDEF, static_cast<std::uint64_t>(attempts));
      const std::string cls = RunInChild(shared, in, RunsFor(target), nullptr);
      if (ClassKey(cls) == ClassKey(target) && shared->choices_overflow == 0) {
        found.clear();
        for (std::uint32_t k = 0; k < shared->n_choices; ++k) {
          found.emplace_back(shared->ckey[k], shared->cval[k]);
        }
        return true;
      }
    }
    return false;
  }

  void DdminChoices() {
    std::size_t n = 2;
    while (choices.size() >= 1 && NowWall() < deadline) {
      const std::size_t len = choices.size();
      const std::size_t chunk = std::max<std::size_t>(1, (len + n - 1) / n);
      bool reduced = false;
      for (std::size_t s = 0; s < len; s += chunk) {
        std::vector<std::pair<std::uint64_t, std::uint32_t>> c;
        c.insert(c.end(), choices.begin(), choices.begin() + static_cast<long>(s));
        c.insert(c.end(), choices.begin() + static_cast<long>(std::min(len, s + chunk)), choices.end());
        if (Try(tape, c)) {
          choices = c;
          n = std::max<std::size_t>(n - 1, 2);
          reduced = true;
          break;
        }
      }
      if (!reduced) {
        if (chunk == 1) {
          break;
        }
        n = std::min(n * 2, len);
      }
    }
  }

  void ShrinkTape() {
    // trailing zeros are implicit
    auto trim = [](std::vector<std::uint32_t>& t) {
      while (!t.empty() && t.back() == 0) {
        t.pop_back();
      }
    };
    trim(tape);
    bool progress = true;
    while (progress && NowWall() < deadline) {
      progress = false;
      // delete blocks (shifts later draws: often removes an op / a fiber)
      for (std::size_t len : {8U, 4U, 2U, 1U}) {
        for (std::size_t i = 0; i + len <= tape.size() && NowWall() < deadline;) {
          std::vector<std::uint32_t> t = tape;
          t.erase(t.begin() + static_cast<long>(i), t.begin() + static_cast<long>(i + len));
          if (Accept(t)) {
            progress = true;
          } else {
            i += len;
          }
        }
      }
      // lower single values
      for (std::size_t i = 0; i < tape.size() && NowWall() < deadline; ++i) {
        if (tape[i] == 0) {
          continue;
        }
        std::vector<std::uint32_t> t = tape;
        t[i] = 0;
        if (Accept(t)) {
          progress = true;
          continue;
        }
        if (tape[i] > 1) {
          t = tape;
          t[i] = tape[i] / 2;
          if (Accept(t)) {
            progress = true;
            continue;
          }
          t = tape;
          t[i] = tape[i] - 1;
          if (Accept(t)) {
            progress = true;
          }
        }
      }
      trim(tape);
    }
  }
  bool Accept(std::vector<std::uint32_t>& t) {
    if (Try(t, choices)) {
      tape = t;
      return true;
    }
    std::vector<std::pair<std::uint64_t, std::uint32_t>> found;
    if (TryFresh(t, 24, found)) {
      tape = t;
      choices = found;
      return true;
    }
    return false;
  }
};

int Minimize(const Args& a) {
  const char* file = a.Get("file");
  const char* outp = a.Get("out");
  if (file == nullptr || outp == nullptr) {
    std::fprintf(stderr, "minimize needs --file and --out\n");
    return 2;
  }
  RunInput in;
  std::string cls;
  if (!LoadReplay(file, in, &cls)) {
    return 2;
  }
  WarmUp();
  gQuietChildren = true;
  Minimizer m;
  m.shared = MapRecord(true);
  m.target = cls;
  m.deadline = NowWall() + a.F("time", 60.0);
  m.tape = in.tape;
  m.choices = in.choices;
  const std::size_t tape0 = m.tape.size(), ch0 = m.choices.size();
  if (!m.Try(m.tape, m.choices)) {
    std::printf("MINIMIZE {\"ok\":false,\"reason\":\"input does not reproduce class %s\"}\n", cls.c_str());
    return 3;
  }
  m.DdminChoices();
  m.ShrinkTape();
  m.DdminChoices();
  // final confirming run, with describe
  RunInput fin;
  fin.replay_tape = true;
  fin.tape = m.tape;
  fin.replay_choices = true;
  fin.choices = m.choices;
  std::string describe;
  const std::string got = RunInChild(m.shared, fin, RunsFor(cls), &describe);
  Json j;
  j.Obj();
  j.KV("property", gInfo->property);
  j.KV("harness", gInfo->name);
  j.KV("profile", gProfile);
  j.KV("tier", gThorough ? "thorough" : "quick");
  AppendResultJson(j, *m.shared, true);
  j.KV("verdict", got);
  if (!describe.empty()) {
    j.Key("describe").Raw(describe);
  }
  j.Key("minimised_from").Obj().KV("tape_len", static_cast<unsigned long long>(tape0)).KV("choices", static_cast<unsigned long long>(ch0)).KV("attempts", m.attempts).End();
  j.End();
  FILE* f = std::fopen(outp, "w");
  if (f == nullptr) {
    std::perror(outp);
    return 2;
  }
  std::fprintf(f, "%s\n", j.s.c_str());
  std::fclose(f);
  std::printf("MINIMIZE {\"ok\":%s,\"tape\":[%zu,%zu],\"choices\":[%zu,%zu],\"attempts\":%d}\n", got == cls ? "true" : "false", tape0,
              m.tape.size(), ch0, m.choices.size(), m.attempts);
  return ClassKey(got) == ClassKey(cls) ? 0 : 3;
}

int CountDistinct(const Args& a) {
  std::vector<std::uint64_t> all;
  for (auto& p : a.pos) {
    FILE* f = std::fopen(p.c_str(), "rb");
    if (f == nullptr) {
      continue;
    }
    std::uint64_t buf[8192];
    std::size_t n;
    while ((n = std::fread(buf, sizeof(std::uint64_t), 8192, f)) > 0) {
      all.insert(all.end(), buf, buf + n);
    }
    std::fclose(f);
  }
  std::sort(all.begin(), all.end());
  all.erase(std::unique(all.begin(), all.end()), all.end());
  std::printf("DISTINCT %zu\n", all.size());
  return 0;
}

}  // namespace

void OnSanitizerError(const char* desc) {
  if (gRec != nullptr) {
    std::snprintf(gRec->extra, sizeof gRec->extra, "asan: %s", desc != nullptr ? desc : "?");
    SnapshotProgress();
  }
}

int Main(int argc, char** argv, const HarnessInfo& info) {
  gInfo = &info;
  if (argc < 2) {
    std::fprintf(stderr,
                 "usage: %s explore|one|minimize|count-distinct [--seed S --index I | --file F] ...\n  property %s, harness %s\n",
                 argv[0], info.property, info.name);
    return 2;
  }
  yaclib::fiber::SetStackSize(64);
  yaclib::fiber::SetStackCacheSize(128);
  yaclib::fiber::SetHardwareConcurrency(2);
  yaclib::fiber::SetFaultTickLength(10);
  yaclib::SetFaultSleepTime(64);
  const std::string mode = argv[1];
  const Args a = ParseArgs(argc, argv, 2);
  gProfile = a.Get("profile", "");
  gThorough = std::string(a.Get("tier", "quick")) == "thorough";
  if (mode == "explore") {
    return Explore(a);
  }
  if (mode == "one") {
    return One(a);
  }
  if (mode == "minimize") {
    return Minimize(a);
  }
  if (mode == "count-distinct") {
    return CountDistinct(a);
  }
  if (mode == "info") {
    std::printf("{\"property\":\"%s\",\"harness\":\"%s\",\"classes\":\"%s\",\"asan\":%d,\"race\":%d}\n", info.property, info.name,
                info.classes, SIM_ASAN, SIM_RACE);
    return 0;
  }
  std::fprintf(stderr, "unknown mode %s\n", mode.c_str());
  return 2;
}

}  // namespace sim

#if SIM_ASAN
extern "C" __attribute__((used, visibility("default"))) void __asan_on_error() {
  sim::OnSanitizerError(__asan_get_report_description());
}
#endif
