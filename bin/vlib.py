"""Shared pieces of the /verif drivers: configuration table, build (ninja generation), paths."""
import fcntl
import glob
import json
import os
import subprocess
import sys
import time

VERIF = os.path.dirname(os.path.dirname(os.path.abspath(__file__)))
REPO = os.environ.get("VERIF_REPO", "/repo")
# build output is per repo path so that a scratch copy (mutant self-test) never shares objects with /repo
_tag = "main" if os.path.realpath(REPO) == "/repo" else "alt_" + str(abs(hash(os.path.realpath(REPO))) % 10**8)
BUILD = os.environ.get("VERIF_BUILD", os.path.join(VERIF, "build", _tag))
CXX = os.environ.get("VERIF_CXX", "clang++")
JOBS = int(os.environ.get("VERIF_JOBS", "16"))

# ---------------------------------------------------------------------------------------------------------------------
# variants (DESIGN §2.1)
COMMON = ["-std=c++20", "-g1", "-fno-omit-frame-pointer", "-DYACLIB_VERIF=1", "-Wno-unused-value", "-Wno-deprecated-declarations"]
SANCOV = ["-fsanitize-coverage=trace-pc-guard,trace-loads,trace-stores"]
VARIANTS = {
    #            cfg      flags for every TU                      extra for core+harness TUs  link            sim defs
    "plain": dict(cfg="sym", flags=["-O1"], inst=[], link=[], simdefs=[]),
    "asan": dict(cfg="sym", flags=["-O1", "-fsanitize=address"], inst=[], link=["-fsanitize=address"], simdefs=[]),
    "race": dict(cfg="sym", flags=["-O1", "-fsanitize=address"], inst=SANCOV, link=["-fsanitize=address"], simdefs=["-DSIM_RACE=1"]),
    "nosym": dict(cfg="nosym", flags=["-O1"], inst=[], link=[], simdefs=[]),
    # diagnostic only (never in a verdict): valgrind-friendly build, no operator new replacement, DWARF 4
    "vg": dict(cfg="sym", flags=["-O1", "-gdwarf-4"], inst=[], link=[], simdefs=["-DSIM_NO_LEDGER=1"]),
}
CFGS = {
    "sym": ["-DYACLIB_FAULT=FIBER", "-DYACLIB_FLAGS=CORO", "-DYACLIB_CXX_STANDARD=20"],
    "nosym": ["-DYACLIB_FAULT=FIBER", "-DYACLIB_FLAGS=CORO;DISABLE_SYMMETRIC_TRANSFER", "-DYACLIB_CXX_STANDARD=20"],
}

# ---------------------------------------------------------------------------------------------------------------------
# which harness binaries decide which property, in which variants, with which share of the time budget
# entry: (harness, variant, weight)
CHECKS = json.load(open(os.path.join(VERIF, "bin", "checks.json")))


def harness_sources():
    return sorted(glob.glob(os.path.join(VERIF, "harness", "*.cpp")))


def all_targets():
    out = set()
    for pid, c in CHECKS.items():
        for tier in ("quick", "thorough"):
            for e in c.get(tier, []):
                out.add((e[0], e[1]))
    return sorted(out)


def binary(harness, variant):
    return os.path.join(BUILD, variant, "bin", harness)


def run(cmd, **kw):
    return subprocess.run(cmd, **kw)


def configure(cfg):
    d = os.path.join(BUILD, "cfg", cfg)
    os.makedirs(d, exist_ok=True)
    log = os.path.join(d, "configure.log")
    cmd = ["cmake", "-S", REPO, "-B", d, "-G", "Ninja", "-DCMAKE_CXX_COMPILER=" + CXX, "-DCMAKE_BUILD_TYPE=None"] + CFGS[cfg]
    with open(log, "w") as f:
        r = subprocess.run(cmd, stdout=f, stderr=subprocess.STDOUT)
    if r.returncode != 0 or not os.path.exists(os.path.join(d, "include", "yaclib", "config.hpp")):
        sys.stderr.write(open(log).read())
        raise SystemExit("cmake configure failed for cfg " + cfg)
    return os.path.join(d, "include")


def nq(s):
    return s.replace(" ", "$ ").replace(":", "$:")


def gen_ninja(targets):
    """targets: iterable of (harness, variant). Returns path of build.ninja."""
    variants = sorted({v for _h, v in targets})
    cfg_inc = {}
    for v in variants:
        c = VARIANTS[v]["cfg"]
        if c not in cfg_inc:
            cfg_inc[c] = configure(c)
    lib_srcs = sorted(glob.glob(os.path.join(REPO, "src", "**", "*.cpp"), recursive=True))
    lines = ["ninja_required_version = 1.7", "builddir = " + BUILD, "cxx = " + CXX, "",
             "rule cc", "  command = $cxx $flags -MD -MF $out.d -c $in -o $out", "  depfile = $out.d", "  deps = gcc",
             "  description = CXX $out", "",
             "rule link", "  command = $cxx $flags $in -lpthread -o $out", "  description = LINK $out", "",
             "rule relink", "  command = ld -r --force-group-allocation $in -o $out.tmp.o && objcopy --localize-hidden "
             "--wildcard --localize-symbol='_ZNSt*' --localize-symbol='_ZNKSt*' --localize-symbol='_ZSt*' --localize-symbol='_ZN9__gnu_cxx*' "
             "$out.tmp.o $out && rm -f $out.tmp.o",
             "  description = PRELINK $out", ""]
    for v in variants:
        V = VARIANTS[v]
        inc = ["-I" + os.path.join(REPO, "include"), "-I" + os.path.join(REPO, "src"), "-I" + cfg_inc[V["cfg"]],
               "-I" + VERIF]
        base = COMMON + V["flags"] + inc
        odir = os.path.join(BUILD, v, "obj")
        core_objs, fault_objs = [], []
        for s in lib_srcs:
            rel = os.path.relpath(s, os.path.join(REPO, "src"))
            o = os.path.join(odir, "lib", rel.replace("/", "_")[:-4] + ".o")
            is_fault = rel.startswith("fault/")
            fl = base + ([] if is_fault else V["inst"])
            lines += ["build %s: cc %s" % (nq(o), nq(s)), "  flags = " + " ".join(fl), ""]
            (fault_objs if is_fault else core_objs).append(o)
        sim_objs = []
        sim_srcs = [os.path.join(VERIF, "sim", "sim.cpp"), os.path.join(VERIF, "sim", "util.cpp")]
        if v == "race":
            sim_srcs.append(os.path.join(VERIF, "sim", "hb.cpp"))
        for s in sim_srcs:
            o = os.path.join(odir, "sim", os.path.basename(s)[:-4] + ".o")
            lines += ["build %s: cc %s" % (nq(o), nq(s)), "  flags = " + " ".join(base + V["simdefs"]), ""]
            sim_objs.append(o)
        if v == "race":
            # keep the (uninstrumented) fault layer + simulator from calling instrumented COMDAT copies of inline std::
            # code: pre-link them and make their weak std symbols local (DESIGN §2.1)
            pre = os.path.join(odir, "prelinked_observer.o")
            lines += ["build %s: relink %s" % (nq(pre), " ".join(nq(o) for o in fault_objs + sim_objs)), ""]
            observer = [pre]
        else:
            observer = fault_objs + sim_objs
        for h, hv in targets:
            if hv != v:
                continue
            src = os.path.join(VERIF, "harness", h + ".cpp")
            o = os.path.join(odir, "harness", h + ".o")
            lines += ["build %s: cc %s" % (nq(o), nq(src)), "  flags = " + " ".join(base + V["inst"] + V["simdefs"]), ""]
            b = binary(h, v)
            lines += ["build %s: link %s" % (nq(b), " ".join(nq(x) for x in [o] + core_objs + observer)),
                      "  flags = " + " ".join(V["link"]), ""]
    path = os.path.join(BUILD, "build.ninja")
    os.makedirs(BUILD, exist_ok=True)
    new = "\n".join(lines) + "\n"
    old = open(path).read() if os.path.exists(path) else None
    if old != new:
        with open(path, "w") as f:
            f.write(new)
    return path


def build(targets, quiet=True):
    """Builds the given (harness, variant) binaries from the current working tree of REPO. Serialised by a lock."""
    os.makedirs(BUILD, exist_ok=True)
    t0 = time.time()
    with open(os.path.join(BUILD, ".lock"), "w") as lk:
        fcntl.flock(lk, fcntl.LOCK_EX)
        # one ninja file for the union of everything ever requested keeps ninja from deleting/relinking needlessly
        known = os.path.join(BUILD, "targets.json")
        prev = set()
        if os.path.exists(known):
            try:
                prev = {tuple(x) for x in json.load(open(known))}
            except Exception:
                prev = set()
        union = sorted(prev | set(targets))
        union = [t for t in union if os.path.exists(os.path.join(VERIF, "harness", t[0] + ".cpp"))]
        json.dump(union, open(known, "w"))
        path = gen_ninja(union)
        outs = [binary(h, v) for h, v in targets]
        cmd = ["ninja", "-f", path, "-j", str(JOBS)] + outs
        r = subprocess.run(cmd, stdout=subprocess.PIPE, stderr=subprocess.STDOUT, text=True)
        if r.returncode != 0:
            sys.stderr.write(r.stdout[-20000:])
            raise SystemExit("build failed")
        if not quiet:
            sys.stderr.write(r.stdout[-2000:])
    return time.time() - t0
