// Happens-before race engine for the C04 check (DESIGN §3 C04). Compiled only into the `race` variant.
// Vector clocks per fiber; edges from the YACLIB_VERIF observation hooks (thread create/join, fiber mutex, atomics with
// release sequences, fences); plain accesses from -fsanitize-coverage=trace-loads,trace-stores callbacks compiled into
// the library core (allowlisted by source file) and from explicit annotations of the harness payloads.
#include "sim.hpp"

#include <yaclib/fault/verif_hook.hpp>

#include <array>
#include <atomic>
#include <cstdint>
#include <cstdio>
#include <cstring>
#include <unordered_map>
#include <vector>

namespace sim::hb {
namespace {

constexpr int kMaxF = 96;
using VC = std::array<std::uint32_t, kMaxF>;

inline void Join(VC& a, const VC& b) noexcept {
  for (int i = 0; i < kMaxF; ++i) {
    if (b[i] > a[i]) {
      a[i] = b[i];
    }
  }
}

struct FiberClock {
  VC vc{};
  VC pend_acq{};       // release clocks seen by relaxed loads, published by a later acquire fence
  VC rel_fence{};      // clock at the last release fence, published by later relaxed stores
  bool has_rel_fence = false;
  bool has_pend = false;
};

struct AtomState {
  VC rel{};
  bool has = false;
};

struct ReadEpoch {
  std::int16_t t;
  std::uint32_t c;
  const void* pc;
};

struct Cell {
  std::int16_t wt = -1;
  std::uint32_t wc = 0;
  const void* wpc = nullptr;
  bool atomic = false;
  std::uint8_t nreads = 0;
  ReadEpoch reads[4];
  std::vector<ReadEpoch>* more = nullptr;
};

struct Pending {
  bool set = false;
  const void* addr = nullptr;
  std::size_t size = 0;
  int op = 0, order = 0, order_fail = 0;
  const void* expected = nullptr;
};

bool gOn = false;
int gBusy = 0;
bool gInSched = true;
int gCur = 0;
std::uint64_t gRaces = 0;
std::uint64_t gAccesses = 0;
std::vector<FiberClock>* gFib = nullptr;
std::unordered_map<std::uintptr_t, AtomState>* gAtoms = nullptr;
std::unordered_map<std::uintptr_t, Cell>* gShadow = nullptr;
std::unordered_map<const void*, VC>* gMutex = nullptr;
Pending gPend[kMaxF];

struct Busy {
  sim::Untracked u;
  Busy() noexcept {
    ++gBusy;
  }
  ~Busy() noexcept {
    --gBusy;
  }
};

void Ensure() {
  if (gFib == nullptr) {
    gFib = new std::vector<FiberClock>;
    gAtoms = new std::unordered_map<std::uintptr_t, AtomState>;
    gShadow = new std::unordered_map<std::uintptr_t, Cell>;
    gMutex = new std::unordered_map<const void*, VC>;
  }
}

FiberClock& F(int slot) {
  auto& v = *gFib;
  while (static_cast<int>(v.size()) <= slot) {
    v.emplace_back();
    v.back().vc[v.size() - 1] = 1;
  }
  return v[static_cast<std::size_t>(slot)];
}

inline bool Acq(int o) noexcept {
  return o == static_cast<int>(std::memory_order_acquire) || o == static_cast<int>(std::memory_order_acq_rel) || o == static_cast<int>(std::memory_order_seq_cst) ||
         o == static_cast<int>(std::memory_order_consume);
}
inline bool Rel(int o) noexcept {
  return o == static_cast<int>(std::memory_order_release) || o == static_cast<int>(std::memory_order_acq_rel) || o == static_cast<int>(std::memory_order_seq_cst);
}

void FreeCell(Cell& c) {
  delete c.more;
  c.more = nullptr;
}

extern "C" char __executable_start;

void Report(const char* kind, std::uintptr_t addr, std::size_t size, const void* pc, int other_fiber, const void* other_pc) {
  ++gRaces;
  const auto base = reinterpret_cast<std::uintptr_t>(&__executable_start);
  sim::Fail("RACE", "%s data race on %zu byte(s) at %p: fiber %d (pc=+0x%llx) vs fiber %d (pc=+0x%llx) are not ordered by happens-before", kind, size,
            reinterpret_cast<void*>(addr), gCur, static_cast<unsigned long long>(reinterpret_cast<std::uintptr_t>(pc) - base), other_fiber,
            static_cast<unsigned long long>(reinterpret_cast<std::uintptr_t>(other_pc) - base));
}

void AccessImpl(std::uintptr_t addr, std::size_t size, bool write, const void* pc) {
  ++gAccesses;
  FiberClock& f = F(gCur);
  for (std::size_t i = 0; i < size; ++i) {
    Cell& c = (*gShadow)[addr + i];
    if (c.atomic) {
      continue;
    }
    if (c.wt >= 0 && c.wt != gCur && c.wc > f.vc[static_cast<std::size_t>(c.wt)]) {
      Report(write ? "write-write" : "write-read", addr, size, pc, c.wt, c.wpc);
      return;
    }
    if (write) {
      for (std::uint8_t r = 0; r < c.nreads; ++r) {
        if (c.reads[r].t != gCur && c.reads[r].c > f.vc[static_cast<std::size_t>(c.reads[r].t)]) {
          Report("read-write", addr, size, pc, c.reads[r].t, c.reads[r].pc);
          return;
        }
      }
      if (c.more != nullptr) {
        for (auto& e : *c.more) {
          if (e.t != gCur && e.c > f.vc[static_cast<std::size_t>(e.t)]) {
            Report("read-write", addr, size, pc, e.t, e.pc);
            return;
          }
        }
        c.more->clear();
      }
      c.nreads = 0;
      c.wt = static_cast<std::int16_t>(gCur);
      c.wc = f.vc[static_cast<std::size_t>(gCur)];
      c.wpc = pc;
    } else {
      bool found = false;
      for (std::uint8_t r = 0; r < c.nreads && !found; ++r) {
        if (c.reads[r].t == gCur) {
          c.reads[r].c = f.vc[static_cast<std::size_t>(gCur)];
          c.reads[r].pc = pc;
          found = true;
        }
      }
      if (!found && c.more != nullptr) {
        for (auto& e : *c.more) {
          if (e.t == gCur) {
            e.c = f.vc[static_cast<std::size_t>(gCur)];
            e.pc = pc;
            found = true;
            break;
          }
        }
      }
      if (!found) {
        const ReadEpoch e{static_cast<std::int16_t>(gCur), f.vc[static_cast<std::size_t>(gCur)], pc};
        if (c.nreads < 4) {
          c.reads[c.nreads++] = e;
        } else {
          if (c.more == nullptr) {
            c.more = new std::vector<ReadEpoch>;
          }
          c.more->push_back(e);
        }
      }
    }
  }
}

}  // namespace

void SetEnabled(bool on) noexcept {
  gOn = on;
}

void Reset() noexcept {
  Busy b;
  Ensure();
  for (auto& kv : *gShadow) {
    FreeCell(kv.second);
  }
  gShadow->clear();
  gAtoms->clear();
  gMutex->clear();
  gFib->clear();
  for (auto& p : gPend) {
    p.set = false;
  }
  gRaces = 0;
  gAccesses = 0;
  gCur = 0;
  gInSched = true;
}

std::uint64_t Races() noexcept {
  return gRaces;
}

void OnResume(int slot) noexcept {
  Busy b;
  gCur = slot;
  gInSched = false;
  (void)F(slot);
}

void OnSuspend() noexcept {
  gInSched = true;
}

void OnFiber(int ev, int self, int other, void* stack, std::size_t size) noexcept {
  if (!gOn) {
    return;
  }
  Busy b;
  using namespace yaclib::verif;
  if (ev == kCreate) {
    if (self >= 0) {
      FiberClock& p = F(self);
      FiberClock& c = F(other);
      Join(c.vc, p.vc);
      p.vc[static_cast<std::size_t>(self)]++;
    } else {
      (void)F(other);
    }
  } else if (ev == kJoin) {
    if (self >= 0) {
      Join(F(self).vc, F(other).vc);
    }
  } else if (ev == kStack) {
    // the stack of an earlier fiber may be reused: forget what was known about that memory
    const auto lo = reinterpret_cast<std::uintptr_t>(stack);
    const auto hi = lo + size;
    for (auto it = gShadow->begin(); it != gShadow->end();) {
      if (it->first >= lo && it->first < hi) {
        FreeCell(it->second);
        it = gShadow->erase(it);
      } else {
        ++it;
      }
    }
  }
}

void AtomicDesc(const void* addr, std::size_t size, int op, int order, int order_fail, const void* expected) noexcept {
  if (!gOn || gInSched) {
    return;
  }
  gPend[gCur] = Pending{true, addr, size, op, order, order_fail, expected};
}

// The pending description takes effect here: no preemption point lies between this call and the operation itself.
void OpNow() noexcept {
  if (!gOn || gInSched) {
    return;
  }
  Pending p = gPend[gCur];
  if (!p.set) {
    return;
  }
  gPend[gCur].set = false;
  Busy b;
  using namespace yaclib::verif;
  for (std::size_t i = 0; i < p.size; ++i) {
    Cell& c = (*gShadow)[reinterpret_cast<std::uintptr_t>(p.addr) + i];
    if (!c.atomic) {
      FreeCell(c);
      c = Cell{};
      c.atomic = true;
    }
  }
  FiberClock& f = F(gCur);
  AtomState& a = (*gAtoms)[reinterpret_cast<std::uintptr_t>(p.addr)];
  bool cas_ok = false;
  if (p.op == kCas) {
    cas_ok = std::memcmp(p.addr, p.expected, p.size) == 0;
  }
  const bool is_read = p.op != kStore;
  const bool is_write = p.op == kStore || p.op == kRmw || (p.op == kCas && cas_ok);
  const int read_order = (p.op == kCas && !cas_ok) ? p.order_fail : p.order;
  if (is_read && a.has) {
    if (Acq(read_order)) {
      Join(f.vc, a.rel);
    } else {
      Join(f.pend_acq, a.rel);
      f.has_pend = true;
    }
  }
  if (is_write) {
    const bool rmw = p.op != kStore;
    if (Rel(p.order)) {
      if (rmw && a.has) {
        Join(a.rel, f.vc);  // an RMW continues the release sequence and adds its own release
      } else {
        a.rel = f.vc;
        a.has = true;
      }
      f.vc[static_cast<std::size_t>(gCur)]++;
    } else if (f.has_rel_fence) {
      if (rmw && a.has) {
        Join(a.rel, f.rel_fence);
      } else {
        a.rel = f.rel_fence;
        a.has = true;
      }
    } else if (!rmw) {
      a.has = false;  // a relaxed store by another thread ends the release sequence
      a.rel = VC{};
    }
    // a relaxed RMW leaves the release sequence intact
  }
}

void OnFence(int order) noexcept {
  if (!gOn || gInSched) {
    return;
  }
  Busy b;
  FiberClock& f = F(gCur);
  if (Acq(order) && f.has_pend) {
    Join(f.vc, f.pend_acq);
  }
  if (Rel(order)) {
    f.rel_fence = f.vc;
    f.has_rel_fence = true;
    f.vc[static_cast<std::size_t>(gCur)]++;
  }
}

void OnMutex(const void* m, int ev) noexcept {
  if (!gOn || gInSched) {
    return;
  }
  Busy b;
  FiberClock& f = F(gCur);
  if (ev == yaclib::verif::kAcquire) {
    auto it = gMutex->find(m);
    if (it != gMutex->end()) {
      Join(f.vc, it->second);
    }
  } else {
    (*gMutex)[m] = f.vc;
    f.vc[static_cast<std::size_t>(gCur)]++;
  }
}

void ClearRange(std::uintptr_t a, std::size_t n) noexcept {
  if (gBusy != 0 || gShadow == nullptr || gShadow->empty()) {
    return;
  }
  Busy b;
  if (n > 1024) {
    for (auto it = gShadow->begin(); it != gShadow->end();) {
      if (it->first >= a && it->first < a + n) {
        FreeCell(it->second);
        it = gShadow->erase(it);
      } else {
        ++it;
      }
    }
    for (auto it = gAtoms->begin(); it != gAtoms->end();) {
      if (it->first >= a && it->first < a + n) {
        it = gAtoms->erase(it);
      } else {
        ++it;
      }
    }
    return;
  }
  for (std::size_t i = 0; i < n; ++i) {
    auto it = gShadow->find(a + i);
    if (it != gShadow->end()) {
      FreeCell(it->second);
      gShadow->erase(it);
    }
  }
  for (std::size_t i = 0; i < n; i += 1) {
    gAtoms->erase(a + i);
  }
}

void Access(const void* addr, std::size_t size, bool write, const void* pc) noexcept {
  if (!gOn || gBusy != 0 || gInSched || sim::Failed()) {
    return;
  }
  Busy b;
  AccessImpl(reinterpret_cast<std::uintptr_t>(addr), size, write, pc);
}

// A block is freed while frees are parked (its address is not handed out again during this run): the free is a write of every byte
// that has been accessed so far. An access that is not ordered before the free, or that comes after it from a fiber the free is
// not ordered before, is a race with the end of the object's lifetime (use after free, or freed while still in use).
void FreeRange(std::uintptr_t a, std::size_t n, const void* pc) noexcept {
  if (gShadow == nullptr) {
    return;
  }
  if (!gOn || gBusy != 0 || gInSched || sim::Failed() || n > 1024) {
    ClearRange(a, n);
    return;
  }
  Busy b;
  for (std::size_t i = 0; i < n; ++i) {
    gAtoms->erase(a + i);
    auto it = gShadow->find(a + i);
    if (it == gShadow->end()) {
      continue;
    }
    if (it->second.atomic) {
      FreeCell(it->second);
      gShadow->erase(it);
      continue;
    }
    AccessImpl(a + i, 1, true, pc);
    if (sim::Failed()) {
      return;
    }
  }
}

std::uint64_t Accesses() noexcept {
  return gAccesses;
}

}  // namespace sim::hb

// sancov callbacks (trace-loads / trace-stores / trace-pc-guard)
extern "C" {
#define SIM_HB_LOAD(N, T)                                                                                              \
  void __sanitizer_cov_load##N(T* p) {                                                                                 \
    sim::hb::Access(p, N, false, __builtin_return_address(0));                                                         \
  }
#define SIM_HB_STORE(N, T)                                                                                             \
  void __sanitizer_cov_store##N(T* p) {                                                                                \
    sim::hb::Access(p, N, true, __builtin_return_address(0));                                                          \
  }
SIM_HB_LOAD(1, std::uint8_t)
SIM_HB_LOAD(2, std::uint16_t)
SIM_HB_LOAD(4, std::uint32_t)
SIM_HB_LOAD(8, std::uint64_t)
SIM_HB_LOAD(16, __int128)
SIM_HB_STORE(1, std::uint8_t)
SIM_HB_STORE(2, std::uint16_t)
SIM_HB_STORE(4, std::uint32_t)
SIM_HB_STORE(8, std::uint64_t)
SIM_HB_STORE(16, __int128)
void __sanitizer_cov_trace_pc_guard(std::uint32_t*) {
}
void __sanitizer_cov_trace_pc_guard_init(std::uint32_t*, std::uint32_t*) {
}
}
