// C13 — Coroutines resume once, after the awaited event, with its outcome, where asked (DESIGN §3 C13).
#include <sim/util.hpp>

#include <yaclib/async/contract.hpp>
#include <yaclib/async/make.hpp>
#include <yaclib/async/shared_contract.hpp>
#include <yaclib/async/wait.hpp>
#include <yaclib/coro/await.hpp>
#include <yaclib/coro/await_on.hpp>
#include <yaclib/coro/await_sticky.hpp>
#include <yaclib/coro/current_executor.hpp>
#include <yaclib/coro/future.hpp>
#include <yaclib/coro/on.hpp>
#include <yaclib/coro/shared_future.hpp>
#include <yaclib/coro/task.hpp>
#include <yaclib/coro/yield.hpp>
#include <yaclib/exe/inline.hpp>
#include <yaclib/lazy/make.hpp>
#include <yaclib/runtime/fair_thread_pool.hpp>

#include <deque>
#include <vector>
#include <yaclib_std/thread>

namespace {

using sim::OKind;
using sim::Outcome;
using E = sim::SimError;
using T = sim::Tracked;
using UF = yaclib::Future<T, E>;
using SF = yaclib::SharedFuture<T, E>;

enum OpKind : int {
  kAwaitFuture,     // co_await std::move(future)
  kAwaitShared,     // co_await shared_future (one of the global ones, possibly awaited by several coroutines)
  kAwaitTask,       // co_await std::move(task)   (MakeTask or a lazy coroutine)
  kAwaitMany,       // co_await Await(fs...)
  kAwaitOnMany,     // co_await AwaitOn(e, fs...)
  kAwaitSticky,     // co_await AwaitSticky(f) / (begin, n)
  kOn,              // co_await On(e)
  kYield,           // co_await Yield() / kYield
  kCurrentExecutor, // co_await CurrentExecutor()
  kThrow,
  kOpKindCount
};
const char* kOpNames[] = {"co_await future", "co_await shared", "co_await task", "Await(fs...)", "AwaitOn(e, fs...)", "AwaitSticky(...)", "On(e)", "Yield", "CurrentExecutor()", "throw"};
enum Ex : int { kPoolA = 0, kPoolB = 1, kStopped = 2, kExCount = 3 };
const char* kExNames[] = {"proxy(poolA)", "proxy(poolB)", "proxy(stopped inline)"};
enum RetKind : int { kRetFuture, kRetTask, kRetShared, kRetKindCount };
const char* kRetNames[] = {"Future<T>", "Task<T>", "SharedFuture<T>"};
const std::uint32_t kTimes[] = {0, 0, 50, 300, 1500};

struct Obj {            // an awaited future and its producer
  bool shared = false;
  int outcome = 0;      // 0 value 1 error 2 exception
  std::uint32_t at = 0; // 0: complete before the coroutines start
  std::uint32_t id = 0;
  std::uint64_t set_invoke = 0;
  int global_shared = -1;
  std::uint32_t cell = 0;  // written before the object is fulfilled, read by the coroutine after it resumed
  bool by_coroutine = false;  // produced by another coroutine (completion goes through final_suspend / symmetric transfer), not by Promise::Set
  int bound_ex = -1;          // unique + Promise::Set only: made by MakeContractOn(e): the future carries executor e (and hands it to whoever awaits it)
  int prod_ex = -1;           // by_coroutine only: the producer coroutine hops to instrumented executor e first and completes inside one of its jobs
  std::uint64_t prod_job = 0; // the instrumented job the producer completed in
};

struct Op {
  int kind = 0;
  int ex = 0;
  bool guarded = false;       // failure of the awaited object is caught inside the coroutine
  bool iterator = false;      // multi-await by iterator range
  bool task_is_coroutine = false;
  int task_lvalue = 0;  // 0: co_await std::move(task); 1: co_await Await(task), read by const&, destroy the completed task; 2: Await, Touch&&
  bool yield_constant = false;
  std::vector<int> objs;      // indices into Case::objs
};

struct Script {
  int ret = 0;
  std::vector<Op> ops;
  std::uint32_t ret_id = 0;
};

struct LogEntry {
  int op;
  Outcome got;      // what the op observed (value / thrown failure); kind None for ops without a value
  int exec;         // CurrentExec() right after the op
  std::uint64_t seq;
  bool threw;
  const void* cur_executor = nullptr;
  std::uint64_t job = 0;  // sim::CurrentJob() right after the op
};

class Case;
template <typename R>
R Interp(Case* c, int k);
yaclib::Task<T, E> SubTask(Case* c, std::uint32_t id, bool fail);

class Case final : public sim::CaseBase {
 public:
  void Generate(sim::Gen& g) final {
    const int ncoro = 1 + static_cast<int>(g.Draw(3));
    pool_workers = 1 + g.Draw(2);
    // two global shared futures that any coroutine may await
    for (int s = 0; s < 2; ++s) {
      Obj o;
      o.shared = true;
      o.outcome = static_cast<int>(g.Draw(3));
      o.at = kTimes[g.Draw(5)];
      o.id = 900U + static_cast<std::uint32_t>(s);
      o.global_shared = s;
      o.by_coroutine = g.Draw(3) == 2;
      objs.push_back(o);
    }
    const int fault = static_cast<int>(g.Draw(4));
    if (fault == 1) {
      reject_ex = static_cast<int>(g.Draw(2));
      reject_from = static_cast<int>(g.Draw(6));
    }
    for (int k = 0; k < ncoro; ++k) {
      Script sc;
      sc.ret = static_cast<int>(g.Draw(kRetKindCount));
      sc.ret_id = 5000U + static_cast<std::uint32_t>(k);
      const int n = static_cast<int>(g.Draw(sim::Thorough() ? 10 : 6));
      for (int i = 0; i < n; ++i) {
        Op op;
        op.kind = static_cast<int>(g.Draw(kOpKindCount));
        op.ex = static_cast<int>(g.Draw(fault == 2 ? 3 : 2));
        op.guarded = g.Flip();
        op.iterator = g.Flip();
        op.yield_constant = g.Flip();
        op.task_is_coroutine = g.Flip();
        auto fresh = [&](bool shared) {
          Obj o;
          o.shared = shared;
          o.outcome = g.Draw(4) == 3 ? 1 + static_cast<int>(g.Draw(2)) : 0;
          o.at = kTimes[g.Draw(5)];
          o.id = 100U * static_cast<std::uint32_t>(k + 1) + 10U * static_cast<std::uint32_t>(i) + static_cast<std::uint32_t>(op.objs.size());
          o.by_coroutine = g.Draw(3) == 2;
          if (!shared && !o.by_coroutine && g.Draw(3) == 2) {
            o.bound_ex = static_cast<int>(g.Draw(2));
          }
          if (o.by_coroutine && fault != 1 && g.Flip()) {
            o.prod_ex = static_cast<int>(g.Draw(2));  // never a refusing one: the producer always gets to run
          }
          objs.push_back(o);
          return static_cast<int>(objs.size()) - 1;
        };
        switch (op.kind) {
          case kAwaitFuture: op.objs.push_back(fresh(false)); break;
          case kAwaitShared: op.objs.push_back(static_cast<int>(g.Draw(2))); break;
          case kAwaitTask: {
            Obj o;
            // a failing MakeTask carries an error, a failing lazy coroutine throws
            o.outcome = g.Draw(4) == 3 ? (op.task_is_coroutine ? 2 : 1) : 0;
            op.task_lvalue = static_cast<int>(g.Draw(3));
            o.id = 100U * static_cast<std::uint32_t>(k + 1) + 10U * static_cast<std::uint32_t>(i) + 7U;
            objs.push_back(o);
            op.objs.push_back(static_cast<int>(objs.size()) - 1);
          } break;
          case kAwaitMany:
          case kAwaitOnMany: {
            const int m = 1 + static_cast<int>(g.Draw(3));
            const int pat = static_cast<int>(g.Draw(3));  // 0 all unique, 1 all shared, 2 mixed (variadic only)
            for (int q = 0; q < m; ++q) {
              const bool sh = pat == 1 || (pat == 2 && !op.iterator && (q % 2) == 1);
              op.objs.push_back(fresh(sh));
            }
          } break;
          case kAwaitSticky: {
            const int m = op.iterator ? 1 + static_cast<int>(g.Draw(3)) : 1;
            const bool sh = g.Flip();
            for (int q = 0; q < m; ++q) {
              op.objs.push_back(fresh(sh));
            }
          } break;
          default: break;
        }
        sc.ops.push_back(op);
        if (op.kind == kThrow) {
          break;
        }
      }
      scripts.push_back(sc);
    }
  }

  void Describe(sim::Json& j) const final {
    static const char* outs[] = {"value", "error", "exception"};
    j.KV("pool_workers", pool_workers);
    if (reject_ex >= 0) {
      j.KV("rejecting_executor", kExNames[reject_ex]).KV("rejects_from_submission", reject_from);
    }
    j.Key("coroutines").Arr();
    for (auto& sc : scripts) {
      j.Obj().KV("returns", kRetNames[sc.ret]).Key("script").Arr();
      for (auto& op : sc.ops) {
        j.Obj().KV("op", kOpNames[op.kind]);
        if (op.kind == kOn || op.kind == kAwaitOnMany) {
          j.KV("e", kExNames[op.ex]);
        }
        if (!op.objs.empty()) {
          j.Key("awaits").Arr();
          for (int oi : op.objs) {
            const Obj& o = objs[static_cast<std::size_t>(oi)];
            j.Obj().KV("kind", op.kind == kAwaitTask ? (op.task_is_coroutine ? "lazy coroutine" : "MakeTask") : (o.shared ? (o.global_shared >= 0 ? "global shared" : "shared") : "unique"))
              .KV("outcome", outs[o.outcome]).KV("completes_at_ns", o.at).KV("produced_by", o.by_coroutine ? (o.prod_ex >= 0 ? "a coroutine running in instrumented executor e (co_return/throw)" : "a coroutine (co_return/throw)") : (o.bound_ex >= 0 ? "Promise::Set, made by MakeContractOn(e)" : "Promise::Set")).End();
          }
          j.EndArr();
          j.KV("form", op.iterator ? "iterator" : "variadic").KV("failure_caught", op.guarded);
          if (op.kind == kAwaitTask) {
            static const char* how[] = {"co_await std::move(task)", "co_await Await(task); Touch const&; ~Task", "co_await Await(task); Touch&&"};
            j.KV("task_awaited_by", how[op.task_lvalue]);
          }
        }
        j.End();
      }
      j.EndArr().End();
    }
    j.EndArr();
  }

  // ------------------------------------------------------------------------------------------------- run-time state
  std::vector<UF> uf;
  std::vector<SF> sf;
  std::vector<yaclib::Promise<T, E>> up;
  std::vector<yaclib::SharedPromise<T, E>> sp;
  sim::Proxy* ex[kExCount] = {};
  std::vector<std::vector<LogEntry>> logs;

  static Outcome Expected(const Obj& o) {
    return o.outcome == 1 ? Outcome{OKind::Error, o.id} : o.outcome == 2 ? Outcome{OKind::Exception, o.id} : Outcome{OKind::Value, o.id};
  }

  void Log(int k, int op, Outcome got, bool threw, const void* cur = nullptr) {
    for (int oi : scripts[static_cast<std::size_t>(k)].ops[static_cast<std::size_t>(op)].objs) {
      Obj& o = objs[static_cast<std::size_t>(oi)];
      if (o.set_invoke > 1) {
        sim::RaceRead(&o.cell, sizeof o.cell);
        if (o.cell != o.id) {
          sim::Fail("STALE_PAYLOAD", "coroutine %d resumed from op %d but does not see what was written before the awaited object was fulfilled", k, op);
        }
      }
    }
    logs[static_cast<std::size_t>(k)].push_back(LogEntry{op, got, sim::CurrentExec(), sim::Seq(), threw, cur, sim::CurrentJob()});
  }

  static Outcome OutcomeOfCaught() {
    try {
      throw;
    } catch (const sim::TaggedEx& e) {
      return {OKind::Exception, e.id};
    } catch (const yaclib::ResultError<E>& e) {
      return sim::OutcomeOfErr(e.Get(), "rethrown error");
    } catch (...) {
      return {OKind::Bad, 77};
    }
  }

  void Fulfil(std::size_t i) {
    Obj& o = objs[i];
    sim::RaceWrite(&o.cell, sizeof o.cell);
    o.cell = o.id;
    o.set_invoke = sim::Seq();
    auto set = [&](auto p) {
      if (o.outcome == 1) {
        std::move(p).Set(E{o.id});
      } else if (o.outcome == 2) {
        std::move(p).Set(sim::MakeEx(o.id));
      } else {
        std::move(p).Set(T{o.id});
      }
    };
    if (o.shared) {
      set(std::move(sp[i]));
    } else {
      set(std::move(up[i]));
    }
  }

  // an awaited object produced by a coroutine: its completion reaches the awaiters through final_suspend (Next / symmetric
  // transfer), not through Promise::Set (Here)
  yaclib::IExecutor* producer_exec = nullptr;
  template <typename R>
  static R Producer(Case* c, std::size_t i) {
    Obj& o = c->objs[i];
    if (o.prod_ex >= 0) {
      SIM_PROBE("producer_coroutine_in_an_instrumented_executor");
      co_await yaclib::On(*c->ex[o.prod_ex]);
      o.prod_job = sim::CurrentJob();
      if (o.at != 0) {
        sim::SleepNs(o.at);
      }
    } else if (o.at != 0) {
      co_await yaclib::On(*c->producer_exec);
      sim::SleepNs(o.at);
    }
    sim::RaceWrite(&o.cell, sizeof o.cell);
    o.cell = o.id;
    o.set_invoke = sim::Seq();
    if (o.outcome == 2) {
      throw sim::TaggedEx{o.id};
    }
    if (o.outcome == 1) {
      co_return E{o.id};
    }
    co_return T{o.id};
  }

  // results of the coroutines
  std::vector<UF> res_future;
  std::vector<SF> res_shared;
  std::vector<Outcome> results;
  std::vector<bool> have_result;

  void Run() final {
    yaclib::FairThreadPool pool_a{pool_workers};
    yaclib::FairThreadPool pool_b{1};
    yaclib::FairThreadPool pool_p{2};  // producers' own pool, not proxied: its jobs are not part of any oracle
    producer_exec = &pool_p;
    sim::Proxy px[kExCount] = {{&pool_a, 1}, {&pool_b, 2}, {&yaclib::MakeInline(yaclib::StopTag{}), 3}};
    for (int i = 0; i < kExCount; ++i) {
      ex[i] = &px[i];
      proxy_addr[i] = static_cast<yaclib::IExecutor*>(&px[i]);
    }
    if (reject_ex >= 0) {
      px[reject_ex].RejectFrom(reject_from);
    }
    const std::size_t n = objs.size();
    uf.resize(n);
    sf.resize(n);
    up.resize(n);
    sp.resize(n);
    logs.resize(scripts.size());
    std::vector<bool> is_task(n, false);
    for (auto& sc : scripts) {
      for (auto& op : sc.ops) {
        if (op.kind == kAwaitTask) {
          is_task[static_cast<std::size_t>(op.objs[0])] = true;
        }
      }
    }
    std::deque<yaclib_std::thread> ts;
    for (std::size_t i = 0; i < n; ++i) {
      if (is_task[i]) {
        objs[i].set_invoke = 1;  // tasks produce their result when started by the awaiting coroutine
        continue;
      }
      if (objs[i].by_coroutine) {
        SIM_PROBE("awaited_object_produced_by_coroutine");
        if (objs[i].shared) {
          sf[i] = Producer<SF>(this, i);
        } else {
          uf[i] = Producer<UF>(this, i);
        }
        continue;
      }
      if (objs[i].shared) {
        auto [f, p] = yaclib::MakeSharedContract<T, E>();
        sf[i] = std::move(f);
        sp[i] = std::move(p);
      } else if (objs[i].bound_ex >= 0) {
        SIM_PROBE("awaited_future_bound_to_an_executor");
        auto [f, p] = yaclib::MakeContractOn<T, E>(*ex[objs[i].bound_ex]);
        uf[i] = std::move(f).On(nullptr);  // same core: it keeps carrying the executor
        up[i] = std::move(p);
      } else {
        auto [f, p] = yaclib::MakeContract<T, E>();
        uf[i] = std::move(f);
        up[i] = std::move(p);
      }
      if (objs[i].at == 0) {
        Fulfil(i);
      } else {
        ts.emplace_back([this, i] {
          sim::SleepNs(objs[i].at);
          Fulfil(i);
        });
      }
    }
    const std::size_t nc = scripts.size();
    res_future.resize(nc);
    res_shared.resize(nc);
    results.resize(nc);
    have_result.assign(nc, false);
    for (std::size_t k = 0; k < nc; ++k) {
      switch (scripts[k].ret) {
        case kRetFuture: res_future[k] = Interp<UF>(this, static_cast<int>(k)); break;
        case kRetTask: res_future[k] = Interp<yaclib::Task<T, E>>(this, static_cast<int>(k)).ToFuture(); break;
        default: res_shared[k] = Interp<SF>(this, static_cast<int>(k)); break;
      }
    }
    for (std::size_t k = 0; k < nc; ++k) {
      if (scripts[k].ret == kRetShared) {
        results[k] = sim::Observe(std::as_const(res_shared[k]).Get(), "Get const& of a SharedFuture coroutine");
        res_shared[k] = SF{};
      } else {
        results[k] = sim::Observe(std::move(res_future[k]).Get(), "Get of a coroutine's future");
      }
      have_result[k] = true;
    }
    for (auto& t : ts) {
      t.join();
    }
    sim::SleepNs(20'000'000);
    uf.clear();
    sf.clear();
    up.clear();
    sp.clear();
    for (int i = 0; i < kExCount; ++i) {
      px[i].NoteStopInvoked();
    }
    pool_a.SoftStop();
    pool_a.Wait();
    pool_b.SoftStop();
    pool_b.Wait();
    pool_p.SoftStop();
    pool_p.Wait();
    producer_exec = nullptr;
    for (int i = 0; i < kExCount; ++i) {
      px[i].CheckQuiescent("C13");
      any_drop = any_drop || px[i].dropped() != 0;
      ex[i] = nullptr;
    }
  }

  // ------------------------------------------------------------------------------------------------- oracle
  void Finish() final {
    if (sim::Failed()) {
      return;
    }
    for (std::size_t k = 0; k < scripts.size(); ++k) {
      const Script& sc = scripts[k];
      const auto& log = logs[k];
      SIM_CHECK(have_result[k], "LOST", "coroutine %zu never produced a result", k);
      // walk the script with the model
      Outcome expect_result{OKind::Value, sc.ret_id};
      std::size_t expect_len = sc.ops.size();
      int cur_exec = -1;        // index of the proxy the coroutine's executor is known to be, -1 unknown / inline
      bool exec_known = true;   // initially the library's inline executor
      bool stopped_here = false;
      for (std::size_t i = 0; i < sc.ops.size(); ++i) {
        const Op& op = sc.ops[i];
        if (i >= log.size()) {
          break;
        }
        const LogEntry& le = log[i];
        if (le.op != static_cast<int>(i)) {
          sim::Fail("WRONG_ORDER", "coroutine %zu: log entry %zu is op %d", k, i, le.op);
          return;
        }
        char cell[64];
        std::snprintf(cell, sizeof cell, "cell_%s_%s", kRetNames[sc.ret], kOpNames[op.kind]);
        sim::CountDyn(cell);
        // awaited objects must have begun to complete before the resumption
        for (int oi : op.objs) {
          const Obj& o = objs[static_cast<std::size_t>(oi)];
          if (o.set_invoke == 0 || le.seq < o.set_invoke) {
            sim::Fail("RESUMED_EARLY", "coroutine %zu resumed from %s (seq %llu) before the awaited object began to complete (seq %llu)", k, kOpNames[op.kind],
                      (unsigned long long)le.seq, (unsigned long long)o.set_invoke);
            return;
          }
        }
        Outcome want_obs{};
        bool ends = false;
        switch (op.kind) {
          case kAwaitFuture:
          case kAwaitShared:
          case kAwaitTask: {
            const Obj& o = objs[static_cast<std::size_t>(op.objs[0])];
            want_obs = Expected(o);
            if (o.outcome != 0 && !op.guarded) {
              ends = true;
              expect_result = want_obs;  // rethrown and escaping: becomes the coroutine's own failure
            }
            // A future hands its own executor to the coroutine it resumes, so the coroutine's executor is no longer the
            // one named last. A lazy *coroutine* task is different: it is started by the awaiting coroutine, takes that
            // coroutine's executor, and hands the same one back when it completes.
            if (!(op.kind == kAwaitTask && op.task_is_coroutine)) {
              exec_known = false;
            }
          } break;
          case kAwaitMany:
            exec_known = false;
            break;
          case kAwaitOnMany:
          case kOn:
            cur_exec = op.ex;
            exec_known = true;
            break;
          case kThrow:
            ends = true;
            expect_result = {OKind::Exception, 4000U + static_cast<std::uint32_t>(k)};
            break;
          default: break;
        }
        if (op.kind == kAwaitFuture || op.kind == kAwaitShared || op.kind == kAwaitTask) {
          if (le.got != want_obs) {
            sim::Fail("WRONG_VALUE", "coroutine %zu: %s produced %s, the awaited object completed with %s", k, kOpNames[op.kind], le.got.Str().c_str(),
                      want_obs.Str().c_str());
            return;
          }
          if (le.threw != (want_obs.kind != OKind::Value)) {
            sim::Fail("WRONG_VALUE", "coroutine %zu: %s %s although the awaited object %s", k, kOpNames[op.kind], le.threw ? "threw" : "returned a value",
                      want_obs.kind == OKind::Value ? "succeeded" : "failed");
            return;
          }
        }
        if (op.kind == kAwaitMany || op.kind == kAwaitOnMany || op.kind == kAwaitSticky) {
          if (le.got.kind == OKind::Bad) {
            sim::Fail("AWAIT_LEFT_FUTURE_UNUSABLE", "coroutine %zu: after %s a future is not Valid+Ready with its result (code %u)", k, kOpNames[op.kind], le.got.id);
            return;
          }
        }
        if ((op.kind == kOn || op.kind == kAwaitOnMany || ((op.kind == kYield || op.kind == kAwaitSticky) && exec_known)) && cur_exec >= 0 && cur_exec < 2) {
          proxied_hops.push_back({k, i});
        }
        if ((op.kind == kOn || op.kind == kAwaitOnMany) && le.exec != 1 + op.ex) {
          sim::Fail("WRONG_EXECUTOR", "coroutine %zu: after %s with %s it runs with executor tag %d", k, kOpNames[op.kind], kExNames[op.ex], le.exec);
          return;
        }
        if ((op.kind == kYield || op.kind == kAwaitSticky) && exec_known && cur_exec >= 0 && le.exec != 1 + cur_exec) {
          sim::Fail("WRONG_EXECUTOR", "coroutine %zu: after %s it should be back on its own executor %s, but runs with tag %d", k, kOpNames[op.kind], kExNames[cur_exec],
                    le.exec);
          return;
        }
        if (op.kind == kCurrentExecutor && exec_known && cur_exec >= 0 && le.cur_executor != static_cast<const void*>(proxy_addr[cur_exec])) {
          sim::Fail("WRONG_EXECUTOR", "coroutine %zu: CurrentExecutor() is not the executor given to the last On/AwaitOn", k);
          return;
        }
        if (ends) {
          expect_len = i + 1;
          break;
        }
        (void)stopped_here;
      }
      if (log.size() > expect_len) {
        sim::Fail("RAN_PAST_END", "coroutine %zu continued after it should have ended (log %zu entries, script ends after %zu)", k, log.size(), expect_len);
        return;
      }
      if (log.size() < expect_len) {
        // the coroutine stopped early: only legal when the executor it had to be (re)submitted to refused it, and then
        // its own result must be StopError
        const Op& next = sc.ops[log.size()];
        const bool resubmits = next.kind == kOn || next.kind == kAwaitOnMany || next.kind == kYield || next.kind == kAwaitSticky;
        if (!resubmits || !any_drop) {
          sim::Fail("LOST_RESUME", "coroutine %zu never resumed from op %zu (%s)", k, log.size(), kOpNames[next.kind]);
          return;
        }
        if (results[k] != Outcome{OKind::Stopped, 0}) {
          sim::Fail("WRONG_RESULT", "coroutine %zu was refused by an executor at op %zu but its result is %s instead of StopError", k, log.size(),
                    results[k].Str().c_str());
          return;
        }
        SIM_PROBE("coroutine_completed_by_drop");
        continue;
      }
      if (results[k] != expect_result) {
        sim::Fail("WRONG_RESULT", "coroutine %zu finished with %s, its script says %s", k, results[k].Str().c_str(), expect_result.Str().c_str());
        return;
      }
    }
    CheckPredictedRefusal();
    CheckHopsHaveTheirOwnJob();
  }

  // On(e), AwaitOn(e, ...), Yield and a Sticky await that suspended continue the coroutine by submitting it to an executor, so the
  // coroutine comes back inside a job of its own: never inside the job another coroutine (or a producer coroutine) came back in.
  // Sharing one means the executor was not asked, which is also how a stopped executor gets ignored.
  std::vector<std::pair<std::size_t, std::size_t>> proxied_hops;  // (coroutine, log index): came back by being submitted to an instrumented executor

  void CheckHopsHaveTheirOwnJob() {
    if (sim::Failed()) {
      return;
    }
    struct Hop {
      std::uint64_t job;
      int who;  // coroutine index, or -1 - object index for a producer
      int op;
    };
    std::vector<Hop> hops;
    for (std::size_t i = 0; i < objs.size(); ++i) {
      if (objs[i].prod_job != 0) {
        hops.push_back(Hop{objs[i].prod_job, -1 - static_cast<int>(i), -1});
      }
    }
    for (auto& [k, i] : proxied_hops) {
      const LogEntry& le = logs[k][i];
      const std::uint64_t prev = i == 0 ? 0 : logs[k][i - 1].job;
      if (le.job != 0 && le.job != prev) {
        hops.push_back(Hop{le.job, static_cast<int>(k), le.op});
      }
    }
    for (std::size_t a = 0; a < hops.size(); ++a) {
      for (std::size_t b = a + 1; b < hops.size(); ++b) {
        if (hops[a].job == hops[b].job && hops[a].who != hops[b].who && (hops[a].who >= 0 || hops[b].who >= 0)) {
          const Hop& h = hops[a].who >= 0 ? hops[a] : hops[b];
          sim::Fail("HOP_WITHOUT_SUBMISSION", "coroutine %d came back from op %d (%s) inside job %llu of executor tag %llu, the job %s came back in: it was not submitted to the executor",
                    h.who, h.op, kOpNames[scripts[static_cast<std::size_t>(h.who)].ops[static_cast<std::size_t>(h.op)].kind], (unsigned long long)(h.job & 0xFFFFFFFFU),
                    (unsigned long long)(h.job >> 32U), (&h == &hops[a] ? hops[b].who : hops[a].who) >= 0 ? "another coroutine" : "the producer coroutine of the awaited object");
          return;
        }
      }
    }
  }

  // One coroutine, one executor that refuses every submission from its k-th on: the coroutine is then the only submitter
  // to that executor, so which of its hops is refused follows from the script alone. That hop must end the coroutine
  // (StopError); a coroutine that runs on has not asked the executor it named.
  void CheckPredictedRefusal() {
    if (sim::Failed() || scripts.size() != 1 || reject_ex < 0) {
      return;
    }
    const Script& sc = scripts[0];
    int cur_exec = -1;
    bool exec_known = true;
    int submitted = 0;
    int refused_at = -1;
    for (std::size_t i = 0; i < sc.ops.size() && refused_at < 0; ++i) {
      const Op& op = sc.ops[i];
      int target = -2;  // -2: this op submits nothing to a proxy
      bool stop = false;
      switch (op.kind) {
        case kOn:
        case kAwaitOnMany:
          target = op.ex;
          cur_exec = op.ex;
          exec_known = true;
          break;
        case kYield:
          if (!exec_known) {
            stop = true;  // unknowable from here on
          } else {
            target = cur_exec;  // -1: the library's inline executor, not a proxy
          }
          break;
        case kAwaitSticky:
          // resubmits to the coroutine's own executor only if it really suspended, which depends on the schedule
          if (!exec_known || cur_exec == reject_ex) {
            stop = true;
          }
          break;
        case kAwaitFuture:
        case kAwaitShared:
        case kAwaitTask: {
          const Obj& o = objs[static_cast<std::size_t>(op.objs[0])];
          if (o.outcome != 0 && !op.guarded) {
            stop = true;  // the coroutine ends here with the awaited failure
          }
          if (!(op.kind == kAwaitTask && op.task_is_coroutine)) {
            exec_known = false;
          }
        } break;
        case kAwaitMany:
          exec_known = false;
          break;
        case kThrow:
          stop = true;
          break;
        default:
          break;
      }
      if (stop) {
        return;
      }
      if (target == reject_ex) {
        if (submitted >= reject_from) {
          refused_at = static_cast<int>(i);
        }
        ++submitted;
      } else if (target == 2) {
        return;  // the stopped inline executor ends the coroutine first
      }
    }
    if (refused_at < 0) {
      return;
    }
    SIM_PROBE("refusal_predicted_from_the_script");
    if (logs[0].size() > static_cast<std::size_t>(refused_at)) {
      sim::Fail("REFUSAL_IGNORED",
                "the only coroutine's op %d (%s) is submission #%d to %s, which refuses everything from #%d on, but the coroutine ran on past it (the executor it "
                "named was not asked)",
                refused_at, kOpNames[sc.ops[static_cast<std::size_t>(refused_at)].kind], reject_from, kExNames[reject_ex], reject_from);
    }
  }

  std::uint32_t pool_workers = 1;
  int reject_ex = -1, reject_from = 0;
  std::vector<Obj> objs;
  std::vector<Script> scripts;
  bool any_drop = false;
  const void* proxy_addr[kExCount] = {};
};

yaclib::Task<T, E> SubTask(Case* c, std::uint32_t id, bool fail) {
  T local{id + 1};
  (void)c;
  if (fail) {
    throw sim::TaggedEx{id};
  }
  (void)local.Read("lazy coroutine local");
  co_return T{id};
}

// Readiness + value of every future of a multi-await, encoded into one outcome (Bad = something is wrong)
Outcome CheckAwaited(Case* c, const Op& op) {
  for (int oi : op.objs) {
    const auto i = static_cast<std::size_t>(oi);
    const Obj& o = c->objs[i];
    Outcome got;
    if (o.shared) {
      if (!c->sf[i].Valid() || !c->sf[i].Ready()) {
        return {OKind::Bad, 1};
      }
      got = sim::Observe(std::as_const(c->sf[i]).Touch(), "Touch after a multi-await");
    } else {
      if (!c->uf[i].Valid() || !c->uf[i].Ready()) {
        return {OKind::Bad, 2};
      }
      got = sim::Observe(std::as_const(c->uf[i]).Touch(), "Touch after a multi-await");
    }
    if (got != Case::Expected(o)) {
      return {OKind::Bad, 3};
    }
  }
  return {OKind::None, 0};
}

#define AW_PLAIN(...) yaclib::Await(__VA_ARGS__)
#define AW_ON(...) yaclib::AwaitOn(*c->ex[op.ex], __VA_ARGS__)
#define SIM_MULTI(AW)                                                                                                  \
  do {                                                                                                                 \
    auto& o = op.objs;                                                                                                 \
    auto U = [&](int q) -> UF& {                                                                                       \
      return c->uf[static_cast<std::size_t>(o[static_cast<std::size_t>(q)])];                                          \
    };                                                                                                                 \
    auto S = [&](int q) -> SF& {                                                                                       \
      return c->sf[static_cast<std::size_t>(o[static_cast<std::size_t>(q)])];                                          \
    };                                                                                                                 \
    auto sh = [&](int q) {                                                                                             \
      return c->objs[static_cast<std::size_t>(o[static_cast<std::size_t>(q)])].shared;                                 \
    };                                                                                                                 \
    if (op.iterator) {                                                                                                 \
      if (sh(0)) {                                                                                                     \
        std::vector<SF> range;                                                                                         \
        for (std::size_t q = 0; q < o.size(); ++q) {                                                                   \
          range.push_back(S(static_cast<int>(q)));                                                                     \
        }                                                                                                              \
        co_await AW(range.begin(), range.size());                                                                      \
      } else {                                                                                                         \
        std::vector<UF> range;                                                                                         \
        for (std::size_t q = 0; q < o.size(); ++q) {                                                                   \
          range.push_back(std::move(U(static_cast<int>(q))));                                                          \
        }                                                                                                              \
        co_await AW(range.begin(), range.size());                                                                      \
        for (std::size_t q = 0; q < o.size(); ++q) {                                                                   \
          U(static_cast<int>(q)) = std::move(range[q]);                                                                \
        }                                                                                                              \
      }                                                                                                                \
    } else if (o.size() == 1) {                                                                                        \
      if (sh(0)) {                                                                                                     \
        co_await AW(S(0));                                                                                             \
      } else {                                                                                                         \
        co_await AW(U(0));                                                                                             \
      }                                                                                                                \
    } else if (o.size() == 2) {                                                                                        \
      if (sh(0) && sh(1)) {                                                                                            \
        co_await AW(S(0), S(1));                                                                                       \
      } else if (sh(1)) {                                                                                              \
        co_await AW(U(0), S(1));                                                                                       \
      } else {                                                                                                         \
        co_await AW(U(0), U(1));                                                                                       \
      }                                                                                                                \
    } else {                                                                                                           \
      if (sh(0) && sh(1)) {                                                                                            \
        co_await AW(S(0), S(1), S(2));                                                                                 \
      } else if (sh(1)) {                                                                                              \
        co_await AW(U(0), S(1), U(2));                                                                                 \
      } else {                                                                                                         \
        co_await AW(U(0), U(1), U(2));                                                                                 \
      }                                                                                                                \
    }                                                                                                                  \
  } while (false)

template <typename R>
R Interp(Case* c, int k) {
  T frame_local{3000U + static_cast<std::uint32_t>(k)};
  const Script& sc = c->scripts[static_cast<std::size_t>(k)];
  for (std::size_t i = 0; i < sc.ops.size(); ++i) {
    const Op& op = sc.ops[i];
    const int oi = op.objs.empty() ? -1 : op.objs[0];
    switch (op.kind) {
      case kAwaitFuture:
      case kAwaitShared:
      case kAwaitTask: {
        Outcome got;
        bool threw = false;
        try {
          if (op.kind == kAwaitFuture) {
            T v = co_await std::move(c->uf[static_cast<std::size_t>(oi)]);
            got = {OKind::Value, v.Read("value of co_await future")};
          } else if (op.kind == kAwaitShared) {
            const T& v = co_await c->sf[static_cast<std::size_t>(oi)];
            got = {OKind::Value, v.Read("value of co_await shared future")};
          } else {
            const Obj& o = c->objs[static_cast<std::size_t>(oi)];
            if (op.task_lvalue != 0) {
              // the task is started and awaited through an lvalue: it stays valid, becomes ready, and is read or destroyed later
              auto t = op.task_is_coroutine ? SubTask(c, o.id, o.outcome != 0)
                                            : (o.outcome != 0 ? yaclib::MakeTask<T, E>(E{o.id}) : yaclib::MakeTask<T, E>(T{o.id}));
              co_await yaclib::Await(t);
              if (!t.Valid() || !t.Ready()) {
                sim::Fail("AWAIT_LEFT_FUTURE_UNUSABLE", "co_await Await(task) resumed but the task is not valid and ready");
              } else if (op.task_lvalue == 1) {
                SIM_PROBE("completed_task_destroyed");
                yaclib::Result<T, E> copy = std::as_const(t).Touch();
                T v = std::move(copy).Ok();
                got = {OKind::Value, v.Read("value of Touch const& after co_await Await(task)")};
              } else {
                T v = std::move(t).Touch().Ok();
                got = {OKind::Value, v.Read("value of Touch&& after co_await Await(task)")};
              }
            } else if (op.task_is_coroutine) {
              T v = co_await SubTask(c, o.id, o.outcome != 0);
              got = {OKind::Value, v.Read("value of co_await lazy coroutine")};
            } else if (o.outcome != 0) {
              T v = co_await yaclib::MakeTask<T, E>(E{o.id});
              got = {OKind::Value, v.Read("value of co_await MakeTask(error)")};
            } else {
              T v = co_await yaclib::MakeTask<T, E>(T{o.id});
              got = {OKind::Value, v.Read("value of co_await MakeTask(value)")};
            }
          }
        } catch (...) {
          threw = true;
          got = Case::OutcomeOfCaught();
          c->Log(k, static_cast<int>(i), got, true);
          if (!op.guarded) {
            throw;
          }
        }
        if (!threw) {
          c->Log(k, static_cast<int>(i), got, false);
        }
      } break;
      case kAwaitMany:
        SIM_MULTI(AW_PLAIN);
        c->Log(k, static_cast<int>(i), CheckAwaited(c, op), false);
        break;
      case kAwaitOnMany:
        SIM_MULTI(AW_ON);
        c->Log(k, static_cast<int>(i), CheckAwaited(c, op), false);
        break;
      case kAwaitSticky:
        if (op.iterator) {
          if (c->objs[static_cast<std::size_t>(oi)].shared) {
            std::vector<SF> range;
            for (int q : op.objs) {
              range.push_back(c->sf[static_cast<std::size_t>(q)]);
            }
            co_await yaclib::AwaitSticky(range.begin(), range.size());
          } else {
            std::vector<UF> range;
            for (int q : op.objs) {
              range.push_back(std::move(c->uf[static_cast<std::size_t>(q)]));
            }
            co_await yaclib::AwaitSticky(range.begin(), range.size());
            for (std::size_t q = 0; q < op.objs.size(); ++q) {
              c->uf[static_cast<std::size_t>(op.objs[q])] = std::move(range[q]);
            }
          }
        } else if (c->objs[static_cast<std::size_t>(oi)].shared) {
          co_await yaclib::AwaitSticky(c->sf[static_cast<std::size_t>(oi)]);
        } else {
          co_await yaclib::AwaitSticky(c->uf[static_cast<std::size_t>(oi)]);
        }
        c->Log(k, static_cast<int>(i), CheckAwaited(c, op), false);
        break;
      case kOn:
        co_await yaclib::On(*c->ex[op.ex]);
        c->Log(k, static_cast<int>(i), Outcome{}, false);
        break;
      case kYield:
        if (op.yield_constant) {
          co_await yaclib::kYield;
        } else {
          co_await yaclib::Yield();
        }
        c->Log(k, static_cast<int>(i), Outcome{}, false);
        break;
      case kCurrentExecutor: {
        yaclib::IExecutor& cur = co_await yaclib::CurrentExecutor();
        c->Log(k, static_cast<int>(i), Outcome{}, false, &cur);
      } break;
      default:
        c->Log(k, static_cast<int>(i), Outcome{}, false);
        throw sim::TaggedEx{4000U + static_cast<std::uint32_t>(k)};
    }
  }
  if (frame_local.Read("coroutine frame local") != 3000U + static_cast<std::uint32_t>(k)) {
    sim::Fail("FRAME_CORRUPT", "coroutine %d: a local that lives across suspension points changed", k);
  }
  co_return T{sc.ret_id};
}

}  // namespace

SIM_HARNESS("C13", "c13_coro", Case,
            "REFUSAL_IGNORED HOP_WITHOUT_SUBMISSION RESUMED_EARLY WRONG_VALUE WRONG_RESULT WRONG_ORDER WRONG_EXECUTOR LOST_RESUME RAN_PAST_END AWAIT_LEFT_FUTURE_UNUSABLE FRAME_CORRUPT LOST DEADLOCK NO_PROGRESS "
            "LEAK LEAK_OBJECT DOUBLE_DESTROY USE_AFTER_DESTROY GARBAGE_READ MOVED_FROM_READ JOB_LOST EXECUTOR_REF_LEAK CRASH:*")
