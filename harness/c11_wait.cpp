// C11 — Wait returns only when ready; a timed-out wait leaves the futures intact (DESIGN §3 C11).
#include <sim/util.hpp>

#include <yaclib/async/contract.hpp>
#include <yaclib/async/shared_contract.hpp>
#include <yaclib/async/wait.hpp>
#include <yaclib/coro/await.hpp>
#include <yaclib/coro/future.hpp>
#include <yaclib/coro/shared_future.hpp>
#include <yaclib/async/wait_for.hpp>
#include <yaclib/async/wait_until.hpp>

#include <chrono>
#include <cstring>
#include <deque>
#include <vector>
#include <yaclib_std/chrono>
#include <yaclib_std/thread>

namespace {

using sim::OKind;
using sim::Outcome;
using E = sim::SimError;
using T = sim::Tracked;

enum Call : int { kWait, kWaitFor, kWaitUntil, kCallCount };
const char* kCallNames[] = {"Wait", "WaitFor", "WaitUntil"};
enum Form : int { kVariadic, kIterator, kFormCount };
enum Kind : int { kUnique, kShared, kMixed, kKindCount };
const char* kKindNames[] = {"Future", "SharedFuture", "mixed"};
enum After : int { kGet, kThenInlineGet, kWaitAgainTouch, kReadyTouch, kDetachInline, kAfterCount };
const char* kAfterNames[] = {"Get", "ThenInline+Get", "Wait+Touch", "Ready()+Touch", "DetachInline"};

const std::uint32_t kTimes[] = {0, 60, 200, 700, 2500, 9000, 400000};      // producer completion times (virtual ns; 0 = already complete)
const std::uint32_t kDeadlines[] = {0, 100, 400, 1500, 5000, 200000};       // waiter timeouts (virtual ns)

struct Item {
  int outcome = 0;
  std::uint32_t at = 0;
  bool shared = false;
  int after = 0;
  std::uint32_t id = 0;
  std::uint64_t set_invoke = 0, set_return = 0;
  int cont_calls = 0;
  Outcome cont_got;
  Outcome later_got;
  bool later_have = false;
  bool ready_at_return = false;
  std::uint64_t ready_seen_at = 0;
  bool by_coroutine = false;  // produced by a coroutine (completion through final_suspend / Next) instead of Promise::Set
  // shared futures: somebody else waits on the same shared state: 1 a SubscribeInline callback attached before the wait, 2 another fiber in Wait(copy)
  int other = 0;
  int other_calls = 0;
  Outcome other_got;
  std::uint64_t other_at = 0;
};

constexpr std::size_t kCanaryBytes = 8192;

class Case final : public sim::CaseBase {
 public:
  void Generate(sim::Gen& g) final {
    call = static_cast<int>(g.Draw(kCallCount));
    form = static_cast<int>(g.Draw(kFormCount));
    kind = call == kWait ? static_cast<int>(g.Draw(kKindCount)) : kUnique;
    if (form == kIterator && kind == kMixed) {
      kind = kShared;
    }
    // the iterator forms also accept an empty range (returns at once, true)
    const int n = form == kIterator ? static_cast<int>(g.Draw(5)) : 1 + static_cast<int>(g.Draw(4));
    deadline = kDeadlines[g.Draw(6)];
    for (int i = 0; i < n; ++i) {
      Item it;
      it.outcome = static_cast<int>(g.Draw(3));
      it.at = kTimes[g.Draw(call == kWait ? 6 : 7)];
      it.shared = kind == kShared || (kind == kMixed && (i % 2) == 1);
      it.after = static_cast<int>(g.Draw(kAfterCount));
      it.id = 10U * static_cast<std::uint32_t>(i + 1) + g.Noise(9);
      it.by_coroutine = g.Draw(3) == 2;
      it.other = it.shared && g.Flip() ? 1 + static_cast<int>(g.Draw(2)) : 0;
      items.push_back(it);
    }
    if (kind == kMixed && n == 1) {
      kind = kUnique;
      items[0].shared = false;
      items[0].other = 0;
    }
  }

  void Describe(sim::Json& j) const final {
    j.KV("call", kCallNames[call]).KV("form", form == kVariadic ? (items.size() == 1 ? "single" : "variadic") : "iterator").KV("kind", kKindNames[kind]);
    if (call != kWait) {
      j.KV("timeout_ns", deadline);
    }
    j.Key("futures").Arr();
    static const char* outs[] = {"value", "error", "exception"};
    for (auto& it : items) {
      j.Obj().KV("completes_at_ns", it.at).KV("outcome", outs[it.outcome]).KV("shared", it.shared).KV("produced_by", it.by_coroutine ? "coroutine" : "promise").KV("consumed_afterwards_by", kAfterNames[it.after]).KV("other_waiter", it.other == 0 ? "none" : it.other == 1 ? "SubscribeInline callback attached before the wait" : "another fiber in Wait(copy)").End();
    }
    j.EndArr();
  }

  std::vector<yaclib::Future<T, E>> uf;
  std::vector<yaclib::SharedFuture<T, E>> sf;

  static Outcome Expected(const Item& it) {
    if (it.outcome == 1) {
      return {OKind::Error, it.id};
    }
    if (it.outcome == 2) {
      return {OKind::Exception, it.id};
    }
    return {OKind::Value, it.id};
  }

  template <typename R>
  static R CoItem(Case* c, std::size_t i, yaclib::Future<void, E> gate) {
    co_await yaclib::Await(gate);
    Item& it = c->items[i];
    sim::RaceWrite(&c->payload[i], sizeof(std::uint32_t));
    c->payload[i] = it.id;
    it.set_invoke = sim::Seq();
    if (it.outcome == 2) {
      throw sim::TaggedEx{it.id};
    }
    if (it.outcome == 1) {
      co_return E{it.id};
    }
    co_return T{it.id};
  }

  void OpenGate(yaclib::Promise<void, E> gate, Item& it) {
    std::move(gate).Set();
    it.set_return = sim::Seq();
  }

  template <typename P>
  void Fulfil(P p, Item& it) {
    sim::RaceWrite(&payload[&it - items.data()], sizeof(std::uint32_t));
    payload[&it - items.data()] = it.id;  // plain write published by the fulfilment (C04 race build)
    it.set_invoke = sim::Seq();
    if (it.outcome == 1) {
      std::move(p).Set(E{it.id});
    } else if (it.outcome == 2) {
      std::move(p).Set(sim::MakeEx(it.id));
    } else {
      std::move(p).Set(T{it.id});
    }
    it.set_return = sim::Seq();
  }

  // ---- the wait call, for every (call, form, kind, n)
  template <typename... Fs>
  bool DoWait(Fs&... fs) {
    using namespace std::chrono;
    if (call == kWait) {
      yaclib::Wait(fs...);
      return true;
    }
    if constexpr ((... && yaclib::is_waitable_with_timeout_v<Fs&>)) {
      if (call == kWaitFor) {
        return yaclib::WaitFor(nanoseconds{deadline}, fs...);
      }
      return yaclib::WaitUntil(yaclib_std::chrono::steady_clock::now() + nanoseconds{deadline}, fs...);
    } else {
      sim::Fail("HARNESS", "timed wait generated for shared futures");
      return true;
    }
  }

  bool CallIt() {
    using namespace std::chrono;
    const std::size_t n = items.size();
    if (form == kIterator) {
      if (kind == kShared) {
        yaclib::Wait(sf.begin(), sf.end());
        return true;
      }
      if (call == kWait) {
        yaclib::Wait(uf.begin(), n);
        return true;
      }
      if (call == kWaitFor) {
        return yaclib::WaitFor(nanoseconds{deadline}, uf.begin(), uf.end());
      }
      return yaclib::WaitUntil(yaclib_std::chrono::steady_clock::now() + nanoseconds{deadline}, uf.begin(), n);
    }
    switch (kind) {
      case kUnique:
        switch (n) {
          case 1: return DoWait(uf[0]);
          case 2: return DoWait(uf[0], uf[1]);
          case 3: return DoWait(uf[0], uf[1], uf[2]);
          default: return DoWait(uf[0], uf[1], uf[2], uf[3]);
        }
      case kShared:
        switch (n) {
          case 1: return DoWait(sf[0]);
          case 2: return DoWait(sf[0], sf[1]);
          case 3: return DoWait(sf[0], sf[1], sf[2]);
          default: return DoWait(sf[0], sf[1], sf[2], sf[3]);
        }
      default:
        switch (n) {
          case 2: return DoWait(uf[0], sf[1]);
          case 3: return DoWait(uf[0], sf[1], uf[2]);
          default: return DoWait(uf[0], sf[1], uf[2], sf[3]);
        }
    }
  }

  bool ReadyOf(std::size_t i) {
    return items[i].shared ? sf[i].Ready() : uf[i].Ready();
  }

  // Occupies the stack region the wait call used, lets every remaining producer finish, and looks whether a late
  // completion wrote into the (dead) event of the returned wait.
  __attribute__((noinline)) void CanaryPhase() {
    volatile unsigned char buf[kCanaryBytes];
    for (std::size_t i = 0; i < kCanaryBytes; ++i) {
      buf[i] = 0xC5;
    }
    // race build: the waiter reuses its dead frame; a completion that still touches the returned wait's event is then an
    // access that is not ordered before this write (C04: nothing is accessed after its owner destroyed it)
    sim::RaceWrite(const_cast<unsigned char*>(buf), kCanaryBytes);
    sim::SleepNs(5'000'000);  // all producers are done after this
    std::size_t bad = kCanaryBytes;
    for (std::size_t i = 0; i < kCanaryBytes; ++i) {
      if (buf[i] != 0xC5) {
        bad = i;
        break;
      }
    }
    if (bad != kCanaryBytes) {
      sim::Fail("WAITER_TOUCHED_AFTER_RETURN", "a completion wrote into the waiter's stack after the wait call had returned (canary byte %zu changed)", bad);
    }
  }

  void ConsumeAfter(std::size_t i) {
    Item& it = items[i];
    const Outcome want = Expected(it);
    auto record = [&](const Outcome& o) {
      it.later_got = o;
      it.later_have = true;
      sim::RaceRead(&payload[i], sizeof(std::uint32_t));
      if (payload[i] != it.id) {
        sim::Fail("STALE_PAYLOAD", "future %zu: the producer's plain write before fulfilling is not visible after observing the result", i);
      }
    };
    (void)want;
    if (it.shared) {
      auto& f = sf[i];
      switch (it.after) {
        case kGet: record(sim::Observe(std::as_const(f).Get(), "SharedFuture::Get const& after Wait")); break;
        case kThenInlineGet: {
          auto f2 = f.ThenInline([&it](const yaclib::Result<T, E>& r) {
            ++it.cont_calls;
            it.cont_got = sim::Observe(r, "continuation attached after the wait");
          });
          (void)std::move(f2).Get();
          record(it.cont_got);
        } break;
        case kDetachInline:
          f.SubscribeInline([&it](const yaclib::Result<T, E>& r) {
            ++it.cont_calls;
            it.cont_got = sim::Observe(r, "subscription attached after the wait");
          });
          record(it.cont_got);
          break;
        default:
          yaclib::Wait(f);
          record(sim::Observe(std::as_const(f).Touch(), "Touch after a second Wait"));
          break;
      }
      return;
    }
    auto& f = uf[i];
    switch (it.after) {
      case kGet: record(sim::Observe(std::move(f).Get(), "Get after the wait")); break;
      case kThenInlineGet: {
        auto f2 = std::move(f).ThenInline([&it](yaclib::Result<T, E>&& r) {
          ++it.cont_calls;
          it.cont_got = sim::Observe(r, "continuation attached after the wait");
        });
        (void)std::move(f2).Get();
        record(it.cont_got);
      } break;
      case kDetachInline:
        std::move(f).DetachInline([&it](yaclib::Result<T, E>&& r) {
          ++it.cont_calls;
          it.cont_got = sim::Observe(r, "DetachInline attached after the wait");
        });
        record(it.cont_got);
        break;
      case kReadyTouch:
        if (!f.Ready()) {
          sim::Fail("LOST", "future %zu is not Ready although its producer finished long ago", i);
          return;
        }
        record(sim::Observe(std::move(f).Touch(), "Touch after Ready()"));
        break;
      default:
        yaclib::Wait(f);
        record(sim::Observe(std::move(f).Touch(), "Touch after a second Wait"));
        break;
    }
  }

  void Run() final {
    const std::size_t n = items.size();
    uf.resize(n);
    sf.resize(n);
    payload.assign(n, 0);
    std::deque<yaclib_std::thread> ts;
    for (std::size_t i = 0; i < n; ++i) {
      Item& it = items[i];
      if (it.by_coroutine) {
        SIM_PROBE("awaited_future_produced_by_coroutine");
        auto [gf, gp] = yaclib::MakeContract<void, E>();
        if (it.shared) {
          sf[i] = CoItem<yaclib::SharedFuture<T, E>>(this, i, std::move(gf));
        } else {
          uf[i] = CoItem<yaclib::Future<T, E>>(this, i, std::move(gf));
        }
        if (it.at == 0) {
          OpenGate(std::move(gp), it);
        } else {
          ts.emplace_back([this, &it, pp = std::move(gp)]() mutable {
            sim::SleepNs(it.at);
            OpenGate(std::move(pp), it);
          });
        }
        continue;
      }
      if (it.shared) {
        auto [f, p] = yaclib::MakeSharedContract<T, E>();
        sf[i] = std::move(f);
        if (it.at == 0) {
          Fulfil(std::move(p), it);
        } else {
          ts.emplace_back([this, &it, pp = std::move(p)]() mutable {
            sim::SleepNs(it.at);
            Fulfil(std::move(pp), it);
          });
        }
      } else {
        auto [f, p] = yaclib::MakeContract<T, E>();
        uf[i] = std::move(f);
        if (it.at == 0) {
          Fulfil(std::move(p), it);
        } else {
          ts.emplace_back([this, &it, pp = std::move(p)]() mutable {
            sim::SleepNs(it.at);
            Fulfil(std::move(pp), it);
          });
        }
      }
    }
    for (std::size_t i = 0; i < n; ++i) {
      Item& it = items[i];
      if (it.other == 1) {
        SIM_PROBE("shared_input_has_another_callback");
        sf[i].SubscribeInline([this, i](const yaclib::Result<T, E>& r) {
          ++items[i].other_calls;
          items[i].other_got = sim::Observe(r, "SubscribeInline callback of another waiter");
          items[i].other_at = sim::Seq();
        });
      } else if (it.other == 2) {
        SIM_PROBE("shared_input_has_another_blocked_waiter");
        ts.emplace_back([this, i, copy = sf[i]] {
          yaclib::Wait(copy);
          sim::ReuseDeadFrames();
          if (!copy.Ready()) {
            sim::Fail("RETURNED_BEFORE_READY", "Wait(copy) of another fiber returned but shared future %zu is not Ready", i);
            return;
          }
          ++items[i].other_calls;
          items[i].other_got = sim::Observe(copy.Get(), "Get const& of another waiter after its Wait");
          items[i].other_at = sim::Seq();
        });
      }
    }
    const std::uint64_t t0 = sim::NowNs();
    wait_invoke = sim::Seq();
    const bool ok = CallIt();
    wait_return = sim::Seq();
    const std::uint64_t t1 = sim::NowNs();
    result = ok;
    bool all_ready = true;
    for (std::size_t i = 0; i < n; ++i) {
      items[i].ready_at_return = ReadyOf(i);
      items[i].ready_seen_at = sim::Seq();
      all_ready = all_ready && items[i].ready_at_return;
      if (items[i].ready_at_return) {
        sim::RaceRead(&payload[i], sizeof(std::uint32_t));
      }
      if (items[i].ready_at_return && payload[i] != items[i].id) {
        sim::Fail("STALE_PAYLOAD", "future %zu is Ready when the wait returns, but its producer's earlier plain write is not visible", i);
      }
    }
    if (ok && !all_ready) {
      sim::Fail("RETURNED_BEFORE_READY", "%s returned %s but not every future is Ready", kCallNames[call], call == kWait ? "" : "true");
    }
    if (!ok) {
      SIM_FAULT("deadline_fired");
      if (t1 < t0 + deadline) {
        sim::Fail("FALSE_BEFORE_DEADLINE", "%s returned false at virtual time %llu, before the deadline %llu", kCallNames[call], (unsigned long long)t1,
                  (unsigned long long)(t0 + deadline));
      }
      if (all_ready) {
        SIM_PROBE("timed_out_although_all_ready_by_return");
      } else {
        SIM_PROBE("timed_out_with_pending_futures");
      }
    }
    CanaryPhase();
    for (auto& t : ts) {
      t.join();
    }
    for (std::size_t i = 0; i < n; ++i) {
      ConsumeAfter(i);
    }
    uf.clear();
    sf.clear();
  }

  void Finish() final {
    if (sim::Failed()) {
      return;
    }
    for (std::size_t i = 0; i < items.size(); ++i) {
      const Item& it = items[i];
      const Outcome want = Expected(it);
      SIM_CHECK(it.later_have, "LOST", "future %zu never delivered its result to the later consumer (%s)", i, kAfterNames[it.after]);
      SIM_CHECK(it.later_got == want, "WRONG_RESULT", "future %zu delivered %s to the later consumer, its producer set %s", i, it.later_got.Str().c_str(),
                want.Str().c_str());
      const bool has_cont = it.after == kThenInlineGet || it.after == kDetachInline;
      SIM_CHECK(it.cont_calls == (has_cont ? 1 : 0), has_cont && it.cont_calls == 0 ? "LOST" : "DUPLICATE", "future %zu: continuation attached after the wait ran %d times", i,
                it.cont_calls);
      if (it.other != 0) {
        SIM_CHECK(it.other_calls == 1, it.other_calls == 0 ? "LOST" : "DUPLICATE", "shared future %zu: the other waiter was released %d times", i, it.other_calls);
        SIM_CHECK(it.other_got == want, "WRONG_RESULT", "shared future %zu: the other waiter saw %s, its producer set %s", i, it.other_got.Str().c_str(), want.Str().c_str());
        SIM_CHECK(it.set_invoke != 0 && it.set_invoke < it.other_at, "EARLY", "shared future %zu: the other waiter was released before its producer had begun to fulfil it", i);
      }
      if (it.ready_at_return) {
        SIM_CHECK(it.set_invoke != 0 && it.set_invoke < it.ready_seen_at, "EARLY", "future %zu was Ready at return although its producer had not begun to fulfil it", i);
      }
    }
    {
      char name[96];
      std::snprintf(name, sizeof name, "cell_%s_%s_%s_n%zu_%s", kCallNames[call], form == kVariadic ? "variadic" : "iterator", kKindNames[kind], items.size(),
                    result ? "true" : "false");
      sim::CountDyn(name);
    }
  }

  int call = 0, form = 0, kind = 0;
  std::uint32_t deadline = 0;
  std::vector<Item> items;
  std::vector<std::uint32_t> payload;
  std::uint64_t wait_invoke = 0, wait_return = 0;
  bool result = false;
};

}  // namespace

SIM_HARNESS("C11", "c11_wait", Case,
            "RETURNED_BEFORE_READY FALSE_BEFORE_DEADLINE WAITER_TOUCHED_AFTER_RETURN LOST DUPLICATE WRONG_RESULT EARLY STALE_PAYLOAD DEADLOCK NO_PROGRESS LEAK "
            "LEAK_OBJECT CRASH:*")
